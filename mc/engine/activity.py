"""A broad prelude of library calls (successful and failing) that takes the process from the
pristine post-import state to a 'well used' one.  Checks run part of their enumeration after it
("start from non-initial states"): anything a call leaves behind - flags that stick after a failed
call, values written into the bundled registries, entries added to another package's database,
layouts remembered per country - then shows up against the same oracle as before."""
from __future__ import annotations

import copy
import random

from .. import lib
from ..ref import iban as ri
from ..ref import lookup, reg
from . import bases

o = lib.outcome


def _touch(obj):
    for name in ("country", "bic", "bank", "bank_name", "bank_short_name", "in_sepa_zone", "formatted",
                 "bank_code", "branch_code", "account_code", "national_checksum_digits", "account_type",
                 "account_id", "account_holder_id", "currency_code", "numeric", "is_valid"):
        o(lambda: getattr(obj, name))


def exercise_api(seed: int = 0) -> int:
    """Returns the number of calls made."""
    n = 0
    table = reg.countries()
    I, B, BB = lib.IBAN, lib.BIC, lib.BBAN  # noqa: E741
    for code in sorted(table):
        c = table[code]
        body = bases.bban(c, "distinct")
        text = bases.iban_text(code, body)
        k, obj = o(I, text)
        if k == "ok":
            _touch(obj)
            o(obj.validate, True)
            o(copy.deepcopy, obj)
            # re-assembly from the BBAN object and from its text, for this and for partner countries
            o(I.from_bban, code, obj.bban)
            for pc in bases.partners(code, body)[:2]:
                o(I.from_bban, pc, str(obj.bban))
        # failing calls of every kind
        o(I, text[:-1])
        o(I, text[:2] + "00" + text[4:])
        o(I, text[:-1] + "-")
        o(I, text + "0", validate_bban=True)
        k, bad = o(I, text[:-1], allow_invalid=True)
        if k == "ok":
            _touch(bad)
        o(I.from_bban, code, body[:-1])
        o(I.from_bban, code, body[:-1] + "*")
        o(I.from_bban, code.lower(), body)
        if c.positions:
            o(I.generate, code, body[:3], body[3:8])
            o(I.generate, code, "1" * 40, "1")
            o(I.generate, code, "12-4", "1")
            o(I.generate, code, "1", "1" * 40, "1" * 40)
            o(lambda: BB.from_components(code, bank_code="1"))
        rnd = random.Random(seed)
        o(lambda: I.random(code, random=rnd))
        o(lambda: I.random(code, random=rnd, use_registry=False))
        if "account_code" in c.positions:
            s = c.positions["account_code"]
            o(lambda: I.random(code, random=rnd, account_code=body[s[0]:s[1]]))
        if "bank_code" in c.positions:
            s = c.positions["bank_code"]
            o(lambda: I.random(code, random=rnd, bank_code=body[s[0]:s[1]]))
            o(lambda: I.random(code, random=rnd, bank_code="!" * 40))
        n += 30
    o(lambda: I.random(random=random.Random(seed)))
    o(I.from_bban, "XX", "1234")
    o(I.generate, "XX", "1", "2")
    o(I, "")
    # lookups and BIC accessors
    keys = sorted(lookup.by_key())
    for cc, code in keys[:: max(1, len(keys) // 150)]:
        o(B.from_bank_code, cc, code)
        o(B.candidates_from_bank_code, cc, code)
        o(B.from_bank_code, cc, code + "9")
        n += 3
    for b in sorted(lookup.by_bic())[:: max(1, len(lookup.by_bic()) // 100)]:
        k, obj = o(B, b)
        if k == "ok":
            for name in ("domestic_bank_codes", "bank_names", "bank_short_names", "exists", "country",
                         "formatted", "type", "country_bank_code", "bank_name", "bank_short_name"):
                o(lambda: getattr(obj, name))
        n += 1
    for t in ("GENODEM1GL", "GENOXXM1GLS", "GENODEM1G-S", "1234DEFFXXX", ""):
        o(B, t)
        o(B, t, enforce_swift_compliance=True)
        k, obj = o(B, t, allow_invalid=True)
        if k == "ok":
            o(lambda: obj.is_valid)
            o(lambda: obj.formatted)
    # German national validation of listed banks (dispatch into the method objects)
    de = [k[1] for k in keys if k[0] == "DE"]
    for code in de[:: max(1, len(de) // 60)]:
        for acct in ("0000000000", "0099913003", "1234567897"):
            bban = code + acct
            o(I, "DE" + ri.check_digits("DE", bban) + bban, validate_bban=True)
            n += 1
    return n
