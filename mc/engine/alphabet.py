"""The wide character alphabet W and its cross-section W2 (DESIGN.md section 2.1)."""
from __future__ import annotations

import re
import string
import unicodedata

ASCII_PRINTABLE = [chr(i) for i in range(0x20, 0x7F)]
C0_DEL = [chr(i) for i in range(0x00, 0x20)] + ["\x7f"]
UNICODE_SPACES = [chr(i) for i in range(0x110000) if chr(i).isspace()]
ALL_DECIMALS = [chr(i) for i in range(0x80, 0x110000) if unicodedata.category(chr(i)) == "Nd"]


def _script_digits() -> list[str]:
    """A '0' and a '3' from a dozen scripts (quick tier)."""
    zeros = [0x0660, 0x06F0, 0x07C0, 0x0966, 0x09E6, 0x0E50, 0x0F20, 0x1040, 0x17E0,
             0xFF10, 0x1D7CE, 0x1D7D8]
    out = []
    for z in zeros:
        out += [chr(z), chr(z + 3)]
    return out


DIGIT_LOOKALIKES = ["²", "①", "Ⅳ", "½", "⁰", "௧"]  # not all are Nd
LETTERS = ["é", "É", "ß", "ı", "İ", "ſ", "K", "Å",
           "Ａ", "ａ", "А", "а", "Α", "ﬁ", "ﬀ", "ﬆ",
           "ǰ", "ŉ"]
MARKS = ["́", "​", "‍", "﻿", "‏", "\ud800", "\U0001f600"]


def wide(thorough: bool = False) -> list[str]:
    w = ASCII_PRINTABLE + C0_DEL + UNICODE_SPACES
    w += ALL_DECIMALS if thorough else _script_digits()
    w += DIGIT_LOOKALIKES + LETTERS + MARKS
    seen, out = set(), []
    for c in w:
        if c not in seen:
            seen.add(c)
            out.append(c)
    return out


# cross-section for two simultaneous deviations
W2 = ["0", "9", "A", "Z", "a", " ", "-", "٣", "ß", " ", "é", "²"]

DIGITS = string.digits
UPPER = string.ascii_uppercase
ALNUM = DIGITS + UPPER

# sanity: our notion of white-space is the library's documented one (re \s on str)
assert all(re.fullmatch(r"\s", c) for c in UNICODE_SPACES)
