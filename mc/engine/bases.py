"""Base families: structure-conforming BBANs per country under the fillers of DESIGN 2.1."""
from __future__ import annotations

import random

from ..ref import iban as ri
from ..ref import reg
from .report import SEED

FILLERS = ["distinct", "min", "max", "digits", "letters", "seeded"]
_LETTERS = "ABCDEFGHIJKLMNOPQRSTUVWXYZ"
_DIGITS = "0123456789"


def classes_of(c: reg.Country) -> list[str]:
    """Per-position classes; for 'up to' tokens the maximum count is used."""
    if c.classes is not None:
        return c.classes
    out = []
    for n, _, cls in c.tokens or []:
        out += [cls] * n
    return out


def bban(c: reg.Country, filler: str) -> str:
    cl = classes_of(c)
    out = []
    rnd = random.Random(f"{SEED}:{c.code}") if filler == "seeded" else None
    for i, k in enumerate(cl):
        chars = reg.CLASS_CHARS[k]
        if filler == "min":
            ch = chars[0]
        elif filler == "max":
            ch = chars[-1]
        elif filler == "distinct":
            # digits cycle 1..9,0 so that no field starts with a run of zeros by accident
            ch = chars[(i + 1) % len(chars)] if k != "c" else chars[(i * 7 + 3) % len(chars)]
        elif filler == "digits":
            ch = _DIGITS[(i * 3 + 1) % 10] if k in "nc" else chars[i % len(chars)]
        elif filler == "letters":
            ch = _LETTERS[(i * 5 + 2) % 26] if k in "ac" else chars[(i + 4) % len(chars)]
        else:
            ch = rnd.choice(chars)
        out.append(ch)
    return "".join(out)


def iban_text(country: str, body: str) -> str:
    return country + ri.check_digits(country, body) + body


def base_ibans(country: str, fillers) -> list[tuple[str, str]]:
    c = reg.countries()[country]
    out, seen = [], set()
    for f in fillers:
        b = bban(c, f)
        if b in seen:
            continue
        seen.add(b)
        out.append((f, iban_text(country, b)))
    return out


def partners(country: str, body: str | None = None) -> list[str]:
    """Other countries with the same BBAN length (optionally: whose structure admits ``body``).
    The library's objects compare and hash by their text alone, so anything remembered per BBAN
    *text* is shared between such countries - they are the collisions worth forcing."""
    cs = reg.countries()
    me = cs[country]
    out = []
    for k in sorted(cs):
        c = cs[k]
        if k != country and c.bban_length == me.bban_length and (body is None or c.matches(body)):
            out.append(k)
    return out


def self_prefixed(country: str):
    """A conforming BBAN that begins with the country's own code and two digits (the normal shape in
    several West-African countries: BF42 BF08 ...), or None if the structure does not admit it."""
    c = reg.countries()[country]
    b = bban(c, "distinct")
    cand = country + "08" + b[4:]
    return cand if len(b) >= 4 and c.matches(cand) else None
