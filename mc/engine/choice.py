"""E1 - deviation-bounded choice-tree explorer (stateless; runs always go to completion).

A harness ``run(ch)`` asks ``ch.choose(label, n)`` wherever the property's quantifier offers
alternatives; answer 0 is the default.  ``explore`` replays a prefix of answers, then takes
defaults, and branches on every later choice point while the number of non-default answers
stays within ``bound``.
"""
from __future__ import annotations

import random

from .report import HarnessError


class ReplayDivergence(HarnessError):
    pass


class Chooser:
    def __init__(self, prefix=(), labels=None):
        self.prefix = tuple(prefix)
        self.labels = tuple(labels) if labels is not None else None
        self.trace: list[tuple[str, int, int]] = []
        self.free: list[bool] = []

    def choose(self, label: str, n: int, free: bool = False) -> int:
        """``free`` choices (e.g. who runs next after a thread finished) do not count as deviations."""
        if n <= 0:
            raise HarnessError(f"choice point {label!r} offers no alternative")
        i = len(self.trace)
        c = self.prefix[i] if i < len(self.prefix) else 0
        if c >= n:
            raise ReplayDivergence(
                f"answer {c} out of range at choice point {i} ({label!r}, n={n}) while replaying {self.prefix}")
        if self.labels is not None and i < len(self.labels) and self.labels[i] != label:
            raise ReplayDivergence(
                f"choice point {i} was {self.labels[i]!r} when recorded, is {label!r} on replay")
        self.trace.append((label, n, c))
        self.free.append(free)
        return c

    @property
    def answers(self) -> tuple:
        return tuple(c for _, _, c in self.trace)

    @property
    def deviations(self) -> int:
        return sum(1 for (_, _, c), f in zip(self.trace, self.free) if c and not f)


def all_alternatives(label: str, n: int):
    return range(1, n)


def reduced_alternatives(limit: int = 64):
    """Every alternative at small choice points, {second, middle, last} at large ones."""
    def alts(label: str, n: int):
        if n <= limit:
            return range(1, n)
        return sorted({1, n // 2, n - 1})
    return alts


def explore(run, bound: int, alternatives=all_alternatives, max_runs: int | None = None,
            horizon: int | None = None, check_labels: bool = False):
    """Yield (chooser, observation) for every execution with <= ``bound`` non-default answers at
    non-free choice points (placed among the first ``horizon`` choice points if a horizon is given
    - needed where a retry loop repeats the same choice points up to 100 times).  With
    ``check_labels`` the labels recorded for a prefix must re-appear identically on replay."""
    stack = [((), None, 0)]
    runs = 0
    while stack:
        prefix, labels, dev = stack.pop()
        ch = Chooser(prefix, labels if check_labels else None)
        obs = run(ch)
        if ch.answers[:len(prefix)] != prefix:
            raise ReplayDivergence(f"prefix {prefix} replayed as {ch.answers[:len(prefix)]}")
        runs += 1
        yield ch, obs
        if max_runs is not None and runs >= max_runs:
            return
        answers = ch.answers
        labs = tuple(t[0] for t in ch.trace)
        last = len(ch.trace) if horizon is None else min(len(ch.trace), horizon)
        for i in range(len(prefix), last):
            label, n, _ = ch.trace[i]
            cost = 0 if ch.free[i] else 1
            if dev + cost > bound:
                continue
            for alt in alternatives(label, n):
                stack.append((answers[:i] + (alt,), labs[:i + 1], dev + cost))


class ScriptedRandom(random.Random):
    """A generator whose every integer decision is a choice point of the explorer.  Methods not
    overridden (random(), gauss(), ...) fall back to a fixed seed."""

    def __init__(self, ch: Chooser):
        super().__init__(0)
        self._ch = ch

    def choice(self, seq):
        return seq[self._ch.choose(f"choice/{len(seq)}", len(seq))]

    def randint(self, a, b):
        return a + self._ch.choose(f"randint/{a}..{b}", b - a + 1)

    def randrange(self, start, stop=None, step=1):
        if stop is None:
            start, stop = 0, start
        n = len(range(start, stop, step))
        return start + step * self._ch.choose(f"randrange/{n}", n)

    def _randbelow(self, n):
        return self._ch.choose(f"randbelow/{n}", n)

    def getrandbits(self, k):
        return self._ch.choose(f"bits/{k}", 1 << k) if k <= 16 else super().getrandbits(k)
