"""Deviation families over base texts (DESIGN.md C01 / C04): every member is produced by a
bounded number of departures from a base text; enumeration is exhaustive within the bound."""
from __future__ import annotations

from ..ref import iban as ri
from .alphabet import ALNUM, W2


def char_class(ch: str) -> str:
    if ch in "0123456789":
        return "digit"
    if "A" <= ch <= "Z":
        return "upper"
    if "a" <= ch <= "z":
        return "lower"
    if ch.isspace():
        return "space"
    if ord(ch) < 128:
        return "ascii-other"
    if ch.isdecimal():
        return "nonascii-decimal"
    if ch.upper() != ch and all(c in ALNUM for c in ch.upper()):
        return "upper-folds-to-ascii"
    if ch.isalpha():
        return "nonascii-letter"
    return "nonascii-other"


def single_edits(base: str, W):
    """(family, text): every position x every w substituted, every gap x w inserted, every
    position deleted."""
    n = len(base)
    for p in range(n):
        pre, post, old = base[:p], base[p + 1:], base[p]
        for w in W:
            if w != old:
                yield ("subst:" + char_class(w), pre + w + post)
        yield ("delete", pre + post)
    for p in range(n + 1):
        pre, post = base[:p], base[p:]
        for w in W:
            yield ("insert:" + char_class(w), pre + w + post)


def double_subst(base: str, W2_=W2):
    n = len(base)
    for p in range(n):
        for q in range(p + 1, n):
            for a in W2_:
                if a == base[p]:
                    continue
                t1 = base[:p] + a + base[p + 1:q]
                rest = base[q + 1:]
                for b in W2_:
                    if b != base[q]:
                        yield ("subst2", t1 + b + rest)


def iban_lengths(base: str, maxlen: int = 40):
    """Prefixes and extensions, each as-is and with check digits recomputed for the new body."""
    country = base[:2]
    for n in range(0, len(base)):
        t = base[:n]
        yield ("prefix", t)
        if n >= 4:
            cd = ri.check_digits(country, t[4:])
            if cd:
                yield ("prefix-rechecked", country + cd + t[4:])
    body = base[4:]
    for k in range(1, min(6, len(body))):
        # the first k BBAN characters missing, check digits consistent with what is left (mod 97 is
        # blind to leading zeros, so a 'restore the leading zeros' convenience would accept these)
        cd = ri.check_digits(country, body[k:])
        if cd:
            yield ("head-truncated-rechecked", country + cd + body[k:])
        zeros = "0" * k + body[k:]
        cdz = ri.check_digits(country, zeros)
        if cdz:
            yield ("head-truncated-zero-led", country + cdz + body[k:])
    for pad in "0A":
        for extra in range(1, maxlen - len(base) + 1):
            body = base[4:] + pad * extra
            yield ("extended", base + pad * extra)
            yield ("extended-rechecked", country + ri.check_digits(country, body) + body)


def iban_prefixes(base: str):
    """Every two-character country prefix over [0-9A-Z] in front of the base's tail, as-is and
    with recomputed check digits; lower-case and W2 pairs."""
    body = base[4:]
    for a in ALNUM:
        for b in ALNUM:
            cc = a + b
            yield ("country-prefix", cc + base[2:])
            cd = ri.check_digits(cc, body)
            if cd:
                yield ("country-prefix-rechecked", cc + cd + body)
    for a in W2:
        for b in W2:
            yield ("country-prefix-w2", a + b + base[2:])
    yield ("country-prefix-lower", base[:2].lower() + base[2:])
    yield ("all-lower", base.lower())


def subst_rechecked(base: str, chars=("0", "5", "A", "Z", "a")):
    """Every BBAN position x a few characters, with check digits recomputed for the new body (a
    wrong-class character must be refused by the structure check even when mod 97 is satisfied)."""
    country, body = base[:2], base[4:]
    for p in range(len(body)):
        for ch in chars:
            if ch == body[p]:
                continue
            nb = body[:p] + ch + body[p + 1:]
            cd = ri.check_digits(country, nb.upper())
            if cd:
                yield ("subst-rechecked", country + cd + nb)


def iban_checkpairs(base: str):
    for d in range(100):
        yield ("check-pair", base[:2] + f"{d:02d}" + base[4:])


WS_KINDS = [" ", "\t", "\n", "\r\n", "\u00a0"]


def ws_padding(text: str, maxlen: int = 90):
    """White-space only variants reaching every raw length up to ``maxlen``: trailing, leading and
    inner runs, and every gap widened at once."""
    for k in range(1, maxlen + 1 - len(text)):
        yield ("ws-trailing", text + " " * k)
        yield ("ws-leading", " " * k + text)
        yield ("ws-inner", text[:4] + "\t" * k + text[4:])
    for w in WS_KINDS:
        for rep in (1, 2, 3):
            yield ("ws-every-gap", (w * rep).join(text))


TOKENS = ["IBAN", "BBAN", "BIC", "SWIFT", "NONE", "NULL", "TRUE", "NAN", "INF", "TEST", "XXX", "0X1F",
          "1E5", "1_0", "+1", "-1", "0O7", "0B1", "00", "99", "AA", "ZZ"]


def token_overlays(base: str, rechecked_country: str | None = None):
    """Every dictionary token laid over every offset of the base text (length preserved), for IBANs
    also with check digits recomputed for the new body - strings that a 'helpful' normalisation or
    a number parser might treat specially."""
    n = len(base)
    for tok in TOKENS:
        for p in range(0, n - len(tok) + 1):
            t = base[:p] + tok + base[p + len(tok):]
            if t != base:
                yield ("token:" + tok, t)
                if rechecked_country and p >= 4:
                    cd = ri.check_digits(rechecked_country, t[4:])
                    if cd:
                        yield ("token-rechecked:" + tok, rechecked_country + cd + t[4:])
        yield ("token-prefixed:" + tok, tok + base)
        yield ("token-prefixed:" + tok, tok + " " + base)


FOLDS = [("ı", "I"), ("ſ", "S"), ("ß", "SS"), ("ﬁ", "FI"), ("ﬀ", "FF"), ("ﬆ", "ST"),
         ("ﬅ", "ST"), ("ﬂ", "FL")]


def fold_variants(text: str):
    """Non-ASCII characters whose str.upper() is ASCII, put in place of that ASCII text wherever it
    occurs (the statement normalises by upper-casing, so these variants are the SAME IBAN / BIC)."""
    for ch, up in FOLDS:
        start = 0
        while True:
            i = text.find(up, start)
            if i < 0:
                break
            yield ("fold:" + up, text[:i] + ch + text[i + len(up):])
            yield ("fold-lower:" + up, (text[:i] + ch + text[i + len(up):]).lower())
            start = i + 1


# ---------------------------------------------------------------------- special BBAN bodies
BODY_TOKENS = ["XXX", "XXXX", "XTS", "EUR", "USD", "TEST", "NULL", "NONE", "IBAN", "BIC", "NAN", "INF",
               "TRUE", "00", "99", "AA", "ZZ", "0X1F", "1E5"]


def special_bodies(country_obj, base: str, tokens=None, windows: bool = True):
    """Structure-conforming BBANs carrying (a) a dictionary token, (b) a token with its last
    character replaced by a neighbour of the same kind (one typo away from the token), (c) a run of
    8 / 9 / 10 / 18 zeros or nines, (d) eight zeros followed by each non-zero digit - at EVERY
    offset the country's structure admits.  Yields (label, body, (lo, hi)) with the region touched."""
    n = len(base)
    seen = set()

    def emit(label, p, piece):
        b = base[:p] + piece + base[p + len(piece):]
        if len(b) == n and b != base and b not in seen and country_obj.matches(b):
            seen.add(b)
            return (label, b, (p, p + len(piece)))
        return None

    for tok in (BODY_TOKENS if tokens is None else tokens):
        near = tok[:-1] + ("A" if tok[-1].isalpha() and tok[-1] != "A" else "B" if tok[-1] == "A"
                           else "1" if tok[-1] != "1" else "2")
        for p in range(0, n - len(tok) + 1):
            for label, piece in (("token:" + tok, tok), ("near-token:" + tok, near)):
                r = emit(label, p, piece)
                if r:
                    yield r
    if windows:
        for ch in "09":
            for k in (8, 9, 10, 18):
                for p in range(0, n - k + 1):
                    r = emit(f"run:{ch}x{k}", p, ch * k)
                    if r:
                        yield r
        for d in "123456789":
            for p in range(0, n - 9 + 1):
                r = emit("run:0x8+digit", p, "0" * 8 + d)
                if r:
                    yield r


# ---------------------------------------------------------------------- wrapped texts
WRAP = ['"', "'", "`", "(", ")", "[", "]", "{", "}", "<", ">", "«", "»", "“", "”", "‘", "’", "*", "_",
        "|", "/", "\\", ":", ";", ",", ".", "-", "=", "#", "0", "A"]


def wrapped(base: str):
    """One character in front AND one behind the text at the same time (all ordered pairs of quote,
    bracket and separator characters - matching and non-matching): the kind of decoration a
    copy-and-paste leaves around a code.  None of these texts is the code itself."""
    for a in WRAP:
        for b in WRAP:
            yield ("wrapped", a + base + b)
    for a, b in (("<", ">"), ("(", ")"), ('"', '"'), ("'", "'")):
        yield ("wrapped-twice", a + a + base + b + b)
        yield ("wrapped-spaced", a + " " + base + " " + b)


# ---------------------------------------------------------------------- small fields, exhaustively
MAIN_COMPONENTS = ("bank_code", "branch_code", "account_code", "national_checksum_digits")


def small_field_bodies(country_obj, base: str, limit: int = 20000, dictionary_only: bool = False,
                       include_national: bool = False):
    """For every minor component of the country (currency code, account type, account id, ... - not
    bank / branch / account / national check digits) whose value space has at most ``limit`` members:
    the base BBAN with that field set to EVERY value its character classes admit (with
    ``dictionary_only``: fields of three letters only get the ISO 4217 codes pycountry knows plus the
    26 triple letters).  Yields (label, body, (lo, hi))."""
    import itertools
    from ..ref import reg as _reg
    if not country_obj.classes:
        return
    for name in _reg.COMPONENTS:
        if name in MAIN_COMPONENTS and not (include_national and name == "national_checksum_digits"):
            continue
        sp = country_obj.span(name)
        if not sp:
            continue
        alph = [_reg.CLASS_CHARS[k] for k in country_obj.classes[sp[0]:sp[1]]]
        size = 1
        for a in alph:
            size *= len(a)
        if size > limit:
            continue
        if dictionary_only and size > 2000:
            try:
                import pycountry
                words = sorted({c.alpha_3 for c in pycountry.currencies})
            except Exception:  # noqa: BLE001
                words = []
            words += [ch * (sp[1] - sp[0]) for ch in "ABCDEFGHIJKLMNOPQRSTUVWXYZ"]
            values = [w for w in dict.fromkeys(words) if len(w) == sp[1] - sp[0]
                      and all(ch in a for ch, a in zip(w, alph))]
        else:
            values = ["".join(t) for t in itertools.product(*alph)]
        for v in values:
            b = base[:sp[0]] + v + base[sp[1]:]
            if country_obj.matches(b):
                yield (f"field:{name}", b, sp)
