"""Fork pool with deterministic sharding and merge.

A shard function takes one shard description and returns a *partial*:
    {"evals": int, "distinct": int, "foreign": set[str] | None, "stats": Counter|dict,
     "samples": list, "violations": list[dict]}
``distinct`` counts the shard's own distinct non-trivial cases; ``foreign`` (optional) holds
case keys that could also occur in another shard and are therefore de-duplicated globally.
"""
from __future__ import annotations

import multiprocessing as mp
import os
import traceback
from collections import Counter

from .report import HarnessError

NPROC = int(os.environ.get("VERIF_NPROC", "0") or 0) or min(16, os.cpu_count() or 1)
MAX_VIOL_PER_SHARD = 200


class Part(dict):
    """Accumulator used inside a shard."""

    def __init__(self):
        super().__init__(evals=0, distinct=0, stats=Counter(), samples=[], violations=[])
        self.seen: set = set()
        self.foreign: set = set()

    def count(self, key, nontrivial: bool = True, foreign: bool = False) -> None:
        """One executed case; ``key`` identifies it for distinct counting."""
        self["evals"] += 1
        if not nontrivial:
            return
        if foreign:
            self.foreign.add(key)
        else:
            self.seen.add(hash(key))

    def stat(self, name: str, n: int = 1) -> None:
        self["stats"][name] += n

    def sample(self, s) -> None:
        if len(self["samples"]) < 3:
            self["samples"].append(s)

    def violation(self, signature: str, case: dict, expected, observed) -> None:
        self["stats"]["violating_cases"] += 1
        if len(self["violations"]) < MAX_VIOL_PER_SHARD:
            self["violations"].append(
                {"signature": signature, "case": case, "expected": expected, "observed": observed})
        else:  # keep one representative per signature even past the cap
            if not any(v["signature"] == signature for v in self["violations"]):
                self["violations"].append(
                    {"signature": signature, "case": case, "expected": expected,
                     "observed": observed})

    def done(self) -> dict:
        self["distinct"] = len(self.seen)
        self["foreign"] = self.foreign
        self["stats"] = dict(self["stats"])
        return dict(self)


def _call(args):
    fn, shard = args
    try:
        return ("ok", fn(shard))
    except Exception:  # noqa: BLE001
        return ("err", f"shard {shard!r}:\n{traceback.format_exc()}")


def run_shards(run, fn, shards, nproc: int | None = None) -> None:
    """Run ``fn`` over ``shards`` in forked workers and merge everything into ``run``."""
    shards = list(shards)
    nproc = nproc or NPROC
    foreign: set = set()
    if nproc <= 1 or len(shards) <= 1:
        results = (_call((fn, s)) for s in shards)
        pool = None
    else:
        ctx = mp.get_context("fork")
        pool = ctx.Pool(min(nproc, len(shards)))
        results = pool.imap_unordered(_call, [(fn, s) for s in shards], chunksize=1)
    try:
        for status, part in results:
            if status == "err":
                raise HarnessError(part)
            foreign |= part.pop("foreign", None) or set()
            run.absorb(part)
    finally:
        if pool is not None:
            pool.terminate()
            pool.join()
    run.distinct += len(foreign)
