"""Fork pool with deterministic sharding and merge.

A shard function takes one shard description and returns a *partial*:
    {"evals": int, "distinct": int, "foreign": set[str] | None, "stats": Counter|dict,
     "samples": list, "violations": list[dict]}
``distinct`` counts the shard's own distinct non-trivial cases; ``foreign`` (optional) holds
case keys that could also occur in another shard and are therefore de-duplicated globally.
"""
from __future__ import annotations

import multiprocessing as mp
import os
import pickle
import traceback
from collections import Counter

from .report import HarnessError

NPROC = int(os.environ.get("VERIF_NPROC", "0") or 0) or min(16, os.cpu_count() or 1)
MAX_VIOL_PER_SHARD = 200


class Part(dict):
    """Accumulator used inside a shard."""

    def __init__(self):
        super().__init__(evals=0, distinct=0, stats=Counter(), samples=[], violations=[])
        self.seen: set = set()
        self.foreign: set = set()

    def count(self, key, nontrivial: bool = True, foreign: bool = False) -> None:
        """One executed case; ``key`` identifies it for distinct counting."""
        self["evals"] += 1
        if not nontrivial:
            return
        if foreign:
            self.foreign.add(key)
        else:
            self.seen.add(hash(key))

    def stat(self, name: str, n: int = 1) -> None:
        self["stats"][name] += n

    def sample(self, s) -> None:
        if len(self["samples"]) < 3:
            self["samples"].append(s)

    def violation(self, signature: str, case: dict, expected, observed) -> None:
        self["stats"]["violating_cases"] += 1
        if len(self["violations"]) < MAX_VIOL_PER_SHARD:
            self["violations"].append(
                {"signature": signature, "case": case, "expected": expected, "observed": observed})
        else:  # keep one representative per signature even past the cap
            if not any(v["signature"] == signature for v in self["violations"]):
                self["violations"].append(
                    {"signature": signature, "case": case, "expected": expected,
                     "observed": observed})

    def done(self) -> dict:
        self["distinct"] = len(self.seen)
        self["foreign"] = self.foreign
        self["stats"] = dict(self["stats"])
        return dict(self)


def _call(args):
    fn, shard = args
    try:
        part = fn(shard)
        for v in part.get("violations", []):
            v["shard"] = shard
        return ("ok", part)
    except Exception:  # noqa: BLE001
        return ("err", f"shard {shard!r}:\n{traceback.format_exc()}")


def in_child(fn, *args):
    """Run ``fn(*args)`` in a forked copy of this process and return its (picklable) result."""
    r, w = os.pipe()
    pid = os.fork()
    if pid == 0:
        code = 0
        try:
            os.close(r)
            try:
                payload = pickle.dumps(("ok", fn(*args)))
            except BaseException as e:  # noqa: BLE001
                payload = pickle.dumps(("err", f"{type(e).__name__}: {e}\n{traceback.format_exc()}"))
            with os.fdopen(w, "wb") as f:
                f.write(payload)
        except BaseException:  # noqa: BLE001
            code = 1
        finally:
            os._exit(code)
    os.close(w)
    with os.fdopen(r, "rb") as f:
        data = f.read()
    os.waitpid(pid, 0)
    if not data:
        raise HarnessError("forked child died without a result")
    status, val = pickle.loads(data)
    if status == "err":
        raise HarnessError("forked child failed: " + val)
    return val


def run_shards(run, fn, shards, nproc: int | None = None) -> None:
    """Run ``fn`` over ``shards`` and merge everything into ``run``.  Every shard runs in its own
    process forked from this one (maxtasksperchild=1), so what a shard observes never depends on
    which shards the same worker happened to execute before - state that leaks between library
    calls can only show up *inside* a shard, where it is reproducible."""
    shards = list(shards)
    run.shard_fn = fn
    nproc = nproc or NPROC
    foreign: set = set()
    for status, part in _fork_map(_call, [(fn, s) for s in shards], nproc):
        if status == "err":
            raise HarnessError(part)
        foreign |= part.pop("foreign", None) or set()
        run.absorb(part)
    run.distinct += len(foreign)


def _fork_map(fn, tasks, nproc):
    """Yield fn(task) for every task, each evaluated in its own child forked from this process,
    at most ``nproc`` at a time (results in completion order)."""
    import selectors
    sel = selectors.DefaultSelector()
    pending = list(reversed(tasks))
    live = {}  # fd -> (pid, chunks)
    try:
        while pending or live:
            while pending and len(live) < nproc:
                task = pending.pop()
                r, w = os.pipe()
                pid = os.fork()
                if pid == 0:
                    code = 0
                    try:
                        os.close(r)
                        try:
                            payload = pickle.dumps(("ok", fn(task)))
                        except BaseException as e:  # noqa: BLE001
                            payload = pickle.dumps(("crash", f"{type(e).__name__}: {e}\n{traceback.format_exc()}"))
                        with os.fdopen(w, "wb") as f:
                            f.write(payload)
                    except BaseException:  # noqa: BLE001
                        code = 1
                    finally:
                        os._exit(code)
                os.close(w)
                os.set_blocking(r, False)
                live[r] = (pid, [])
                sel.register(r, selectors.EVENT_READ)
            for key, _ in sel.select(timeout=5):
                fd = key.fd
                try:
                    data = os.read(fd, 1 << 20)
                except BlockingIOError:
                    continue
                if data:
                    live[fd][1].append(data)
                    continue
                sel.unregister(fd)
                os.close(fd)
                pid, chunks = live.pop(fd)
                os.waitpid(pid, 0)
                blob = b"".join(chunks)
                if not blob:
                    raise HarnessError("a shard process died without a result")
                status, val = pickle.loads(blob)
                if status == "crash":
                    raise HarnessError("shard process failed: " + val)
                yield val
    finally:
        for fd, (pid, _) in live.items():
            try:
                os.kill(pid, 9)
                os.waitpid(pid, 0)
                os.close(fd)
            except OSError:
                pass
        sel.close()


def in_interpreter(flags, module: str, func: str, arg, timeout: int = 900, env: dict | None = None):
    """Run ``module.func(arg)`` in a brand-new interpreter started with ``flags`` (e.g. ["-O"]) and
    return its picklable result (a Part dict).  The library must behave the same whatever the
    interpreter options are."""
    import base64
    import subprocess
    import sys
    from .report import VERIF
    code = ("import base64,pickle,sys,importlib;"
            f"m=importlib.import_module({module!r});"
            # mc.lib silences DeprecationWarning on import; an interpreter asked to escalate warnings
            # gets its filter back once the harness modules are loaded
            + ("import warnings;warnings.simplefilter('error');" if "error" in flags else "") +
            "arg=pickle.loads(base64.b64decode(sys.stdin.read()));"
            f"res=getattr(m,{func!r})(arg);"
            "sys.stdout.write('RESULT='+base64.b64encode(pickle.dumps(res)).decode())")
    import os
    full_env = dict(os.environ, **env) if env else None
    p = subprocess.run([sys.executable, *flags, "-c", code], input=base64.b64encode(pickle.dumps(arg)).decode(),
                       capture_output=True, text=True, cwd=str(VERIF), timeout=timeout, env=full_env)
    line = [ln for ln in p.stdout.splitlines() if ln.startswith("RESULT=")]
    if p.returncode != 0 or not line:
        raise HarnessError(f"interpreter {flags} running {module}.{func} failed: {p.stderr[-1500:]}")
    return pickle.loads(base64.b64decode(line[-1][7:]))
