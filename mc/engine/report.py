"""Evidence writer, VIOLATION / KNOWN-FINDING protocol, replay files.

Exit protocol (DESIGN.md section 1):
  0  property held on everything explored (open known findings are printed, not counted)
  1  at least one violation that known_findings.json does not list; one
     ``VIOLATION property=<id> replay=<path>`` line per distinct signature
  2  HARNESS-ERROR: the machinery itself failed (never disguised as a violation)
"""
from __future__ import annotations

import json
import os
import subprocess
import sys
import time
from collections import Counter
from pathlib import Path

VERIF = Path(__file__).resolve().parents[2]
# evidence/ and replays/ go to VERIF_OUT when set (used when trying seeded changes in a scratch
# tree, so that the committed evidence is only ever written by runs against /repo itself)
OUT = Path(os.environ.get("VERIF_OUT") or VERIF)
REPO = Path(os.environ.get("VERIF_REPO", "/repo")).resolve()
SEED = int(os.environ.get("VERIF_SEED", "0") or 0)
MAX_REPLAYS_PER_RUN = 8
MAX_EXAMPLES_PER_SIGNATURE = 3


def tree_identity() -> dict:
    def git(*a: str) -> str:
        try:
            return subprocess.run(
                ["git", "-C", str(REPO), *a], capture_output=True, text=True, timeout=20
            ).stdout.strip()
        except Exception:  # noqa: BLE001
            return "?"

    return {"repo": str(REPO), "head": git("rev-parse", "HEAD"),
            "dirty": bool(git("status", "--porcelain", "--", "schwifty"))}


def load_known() -> dict:
    p = VERIF / "known_findings.json"
    if not p.exists():
        return {"open": [], "fixed": []}
    return json.loads(p.read_text())


class HarnessError(Exception):
    pass


def snippet(case: dict) -> str | None:
    """A self-contained Python snippet (nothing but schwifty imported) that shows the recorded case;
    paste it into a unit test.  None for kinds that need the scheduler or a scratch registry - those
    are replayed with ./check replay."""
    k = case.get("kind")
    r = repr
    if k == "iban_text":
        return ("from schwifty import IBAN\n"
                f"t = {r(case['text'])}\n"
                "for kw in ({}, {'validate_bban': True}):\n"
                "    try:\n        print(kw, 'accepted', IBAN(t, **kw))\n"
                "    except Exception as e:\n        print(kw, type(e).__name__, e)\n"
                "print('is_valid', IBAN(t, allow_invalid=True).is_valid)")
    if k == "bic_text":
        return ("from schwifty import BIC\n"
                f"t = {r(case['text'])}\n"
                "for kw in ({}, {'enforce_swift_compliance': True}):\n"
                "    try:\n        print(kw, 'accepted', BIC(t, **kw))\n"
                "    except Exception as e:\n        print(kw, type(e).__name__, e)")
    if k == "c02":
        return ("from schwifty import IBAN\n"
                f"country, bban = {r(case['country'])}, {r(case['bban'])}\n"
                "print('from_bban ->', IBAN.from_bban(country, bban))\n"
                "for d in range(100):\n"
                "    t = f'{country}{d:02d}{bban}'\n"
                "    if IBAN(t, allow_invalid=True).is_valid:\n        print('accepted:', t)")
    if k in ("c03", "c03seq"):
        pre = ""
        if k == "c03seq":
            pre = f"# first the same BBAN text as a valid IBAN of {case['partner']}\n"
        return ("from schwifty import IBAN\n" + pre +
                f"valid, mutated = {r(case['valid'])}, {r(case['mutated'])}\n"
                "print('valid accepted:', IBAN(valid, allow_invalid=True).is_valid)\n"
                "print('mistyped accepted (must be False):', IBAN(mutated, allow_invalid=True).is_valid)")
    if k in ("c06", "c06seq", "c06bank", "c09rebuild"):
        return ("from schwifty import IBAN\n"
                f"country, bban = {r(case['country'])}, {r(case['bban'])}\n"
                "i = IBAN.from_bban(country, bban)\n"
                "try:\n    print('national validation:', i.validate(validate_bban=True))\n"
                "except Exception as e:\n    print(type(e).__name__, e)")
    if k == "c07m":
        return ("from schwifty.checksum import algorithms\n"
                f"print(algorithms['DE:{case['method']}'].validate([{r(case['account'])}], ''))")
    if k == "c07d":
        return ("from schwifty import IBAN\n"
                f"i = IBAN.from_bban('DE', {r(case['bank_code'] + case['account'])})\n"
                "try:\n    print(i, i.validate(validate_bban=True))\n"
                "except Exception as e:\n    print(i, type(e).__name__, e)")
    if k in ("c08", "c08seq"):
        v = case["values"]
        if case.get("via") == "generate":
            call = (f"IBAN.generate({r(case['country'])}, {r(v.get('bank_code', ''))}, "
                    f"{r(v.get('account_code', ''))}, {r(v.get('branch_code', ''))})")
        else:
            call = f"IBAN.from_bban({r(case['country'])}, BBAN.from_components({r(case['country'])}, **{v!r}))"
        return ("from schwifty import IBAN, BBAN\n"
                f"try:\n    print({call})\nexcept Exception as e:\n    print(type(e).__name__, e)")
    if k == "c12key":
        return ("from schwifty import BIC\n"
                f"cc, code = {r(case['country'])}, {r(case['code'])}\n"
                "for f in (BIC.candidates_from_bank_code, BIC.from_bank_code):\n"
                "    try:\n        print(f.__name__, f(cc, code))\n"
                "    except Exception as e:\n        print(f.__name__, type(e).__name__, e)")
    if k == "c15":
        return "# operation sequence (names from mc/props/c15.py build_alphabet): " + " ; ".join(case["sequence"])
    return None


class Run:
    """Collects what one check run covered and what it found."""

    def __init__(self, pid: str, tier: str, level: str, rule: str):
        self.pid, self.tier, self.level, self.rule = pid, tier, level, rule
        self.t0 = time.time()
        self.evaluations = 0
        self.distinct = 0
        self.stats: Counter = Counter()
        self.samples: list = []
        self.violations: list[dict] = []  # {signature, case, expected, observed}
        self.extra: dict = {}
        self.assumptions: list[str] = []
        self.exhaustive: bool | None = None
        self.notes: list[str] = []

    # ------------------------------------------------------------------ merge
    def absorb(self, part: dict) -> None:
        """Merge a worker's partial result (see par.py for the shape)."""
        self.evaluations += part.get("evals", 0)
        self.distinct += part.get("distinct", 0)
        self.stats.update(part.get("stats", {}))
        for s in part.get("samples", []):
            if len(self.samples) < 12:
                self.samples.append(s)
        self.violations.extend(part.get("violations", []))

    def violation(self, signature: str, case: dict, expected, observed) -> None:
        self.violations.append(
            {"signature": signature, "case": case, "expected": expected, "observed": observed}
        )

    # ----------------------------------------------------------------- finish
    def finish(self, replay_fn=None) -> int:
        known = load_known()
        open_sigs = {
            f["signature"]: f for f in known.get("open", []) if f.get("property") == self.pid
        }
        by_sig: dict[str, list[dict]] = {}
        for v in self.violations:
            by_sig.setdefault(v["signature"], []).append(v)

        new_sigs, known_hit = [], []
        for sig, vs in by_sig.items():
            (known_hit if sig in open_sigs else new_sigs).append((sig, vs))

        # Re-execute before reporting (in forked children, so that this process stays as it is):
        # first the failing case alone; if it does not fail alone, the whole shard that produced it
        # (a violation that needs the calls made earlier in the shard is history-dependent, which is
        # a genuine violation and reproducible from the shard); only if that does not reproduce
        # either is it un-owned nondeterminism -> HARNESS-ERROR, never a VIOLATION.
        harness_error = None
        needs_history: dict[str, bool] = {}
        if replay_fn is not None:
            from .par import in_child
            shard_fn = getattr(self, "shard_fn", None)
            for sig, vs in new_sigs[:MAX_REPLAYS_PER_RUN]:
                try:
                    again = in_child(replay_fn, vs[0]["case"])
                except Exception as e:  # noqa: BLE001
                    harness_error = f"replay of {sig!r} crashed: {type(e).__name__}: {e}"
                    break
                if not again.get("ok", False):
                    continue
                reproduced = False
                if shard_fn is not None and vs[0].get("shard") is not None:
                    try:
                        part = in_child(shard_fn, vs[0]["shard"])
                        reproduced = any(v["signature"] == sig for v in part.get("violations", []))
                    except Exception as e:  # noqa: BLE001
                        harness_error = f"shard replay of {sig!r} crashed: {type(e).__name__}: {e}"
                        break
                if reproduced:
                    needs_history[sig] = True
                else:
                    harness_error = (
                        f"violation {sig!r} did not reproduce on re-execution "
                        f"(first: {vs[0]['observed']!r}, again: {again.get('observed')!r})"
                    )
                    break

        lines = []
        for sig, vs in known_hit:
            lines.append(f"KNOWN-FINDING: property={self.pid} {sig} ({len(vs)} cases) "
                         f"{open_sigs[sig].get('what', '')}")
        replay_dir = OUT / "replays"
        replay_dir.mkdir(parents=True, exist_ok=True)
        for n, (sig, vs) in enumerate(new_sigs):
            if n >= MAX_REPLAYS_PER_RUN:
                lines.append(f"(+{len(new_sigs) - n} further violation signatures not written out)")
                break
            safe = "".join(c if c.isalnum() else "_" for c in sig)[:60]
            path = replay_dir / f"{self.pid}-{self.tier}-{safe}.json"
            path.write_text(json.dumps({
                "property": self.pid, "signature": sig, "count": len(vs),
                "case": vs[0]["case"], "expected": vs[0]["expected"],
                "observed": vs[0]["observed"],
                "more_examples": [
                    {"case": v["case"], "expected": v["expected"], "observed": v["observed"]}
                    for v in vs[1:MAX_EXAMPLES_PER_SIGNATURE]
                ],
                "replay": f"./check replay {path}",
                "standalone_snippet": snippet(vs[0]["case"]),
                "needs_history": bool(needs_history.get(sig)),
                "shard": vs[0].get("shard"),
                "shard_fn": getattr(getattr(self, "shard_fn", None), "__name__", None),
                "tree": tree_identity(),
            }, indent=1, ensure_ascii=True, default=repr))
            lines.append(f"VIOLATION property={self.pid} replay={path}")
            lines.append(f"  signature: {sig}  cases: {len(vs)}" + (
                "  (history-dependent: fails only after the earlier calls of its shard; the replay "
                "re-runs the shard)" if needs_history.get(sig) else ""))
            lines.append(f"  first case: {json.dumps(vs[0]['case'], ensure_ascii=True, default=repr)[:400]}")
            lines.append(f"  expected: {vs[0]['expected']!r}  observed: {vs[0]['observed']!r}")

        cov = {
            "evaluations": int(self.evaluations),
            "distinct_nontrivial": int(self.distinct),
            "rule": self.rule,
            "samples": self.samples[:12] or ["(none)"],
            "traces_validated_against_impl": int(self.evaluations),
            "breakdown": {k: int(v) for k, v in sorted(self.stats.items())},
            "violation_signatures": {s: len(v) for s, v in by_sig.items()},
            "known_findings_seen": [s for s, _ in known_hit],
            "tree": tree_identity(),
            "notes": self.notes,
        }
        if self.exhaustive is not None:
            cov["exhaustive"] = bool(self.exhaustive)
        cov.update(self.extra)
        ev = {
            "property_id": self.pid, "tier": self.tier, "seed": SEED, "level": self.level,
            "coverage": cov, "assumptions": self.assumptions,
            "wall_s": round(time.time() - self.t0, 3),
            "violations": sum(len(v) for _, v in new_sigs),
        }
        evdir = OUT / "evidence"
        evdir.mkdir(parents=True, exist_ok=True)
        text = json.dumps(ev, indent=1, ensure_ascii=True, default=repr) + "\n"
        (evdir / f"{self.pid}.json").write_text(text)
        # the same record once more under its tier, so that the last thorough run stays on record
        # when a quick run rewrites <id>.json
        (evdir / self.tier).mkdir(parents=True, exist_ok=True)
        (evdir / self.tier / f"{self.pid}.json").write_text(text)

        for ln in lines:
            print(ln)
        print(f"[{self.pid} {self.tier}] evaluations={self.evaluations} distinct={self.distinct} "
              f"violations={ev['violations']} known={len(known_hit)} wall={ev['wall_s']}s")
        sys.stdout.flush()
        if harness_error:
            print(f"HARNESS-ERROR property={self.pid} {harness_error}")
            return 2
        return 1 if new_sigs else 0
