"""E4 - registry sandbox: run the real loader / index builders on other data, in-process,
and restore the bundled state afterwards (restoration is verified)."""
from __future__ import annotations

import ast
import copy
import inspect
import json
import pathlib
import shutil
import tempfile
from contextlib import contextmanager

from .. import lib
from .report import HarnessError

registry = lib.registry


_INIT_CACHE: dict = {}


def _init_statements(module):
    if module.__name__ not in _INIT_CACHE:
        _INIT_CACHE[module.__name__] = _parse_init_statements(module)
    return _INIT_CACHE[module.__name__]


def _parse_init_statements(module):
    """Top-level ``registry.<fn>(...)`` expression statements of a module (its import-time
    initialisation), compiled so they can be re-executed in the module's namespace."""
    src = inspect.getsource(module)
    tree = ast.parse(src)
    out = []
    for node in tree.body:
        if (isinstance(node, ast.Expr) and isinstance(node.value, ast.Call)
                and isinstance(node.value.func, ast.Attribute)
                and isinstance(node.value.func.value, ast.Name)
                and node.value.func.value.id == "registry"):
            out.append((node.value.func.attr, ast.get_source_segment(src, node),
                        compile(ast.Module([node], []), module.__file__, "exec")))
    return out


def reinit(kinds=("bank", "iban")) -> list[str]:
    """Re-run the library's own import-time registry initialisation (index building for the bank
    registry, regex attachment for the IBAN registry) against whatever registry.get() now yields."""
    import schwifty.bban
    import schwifty.bic
    import schwifty.iban
    done = []
    for mod in (schwifty.bic, schwifty.bban, schwifty.iban):
        for fn, text, code in _init_statements(mod):
            is_bank = '"bank"' in text or "'bank'" in text
            is_iban = '"iban"' in text or "'iban'" in text
            if (is_bank and "bank" in kinds) or (is_iban and "iban" in kinds):
                exec(code, mod.__dict__)  # noqa: S102
                done.append(text.replace("\n", " "))
    return done


def snapshot():
    return dict(registry._registry)


def restore(snap) -> None:
    registry._registry.clear()
    registry._registry.update(snap)


@contextmanager
def bank_list(banks: list):
    """Install ``banks`` as the bank registry and rebuild the indexes with the library's own
    initialisation statements."""
    snap = snapshot()
    try:
        for k in [k for k in registry._registry if k != "iban"]:
            del registry._registry[k]
        registry.save("bank", banks)
        reinit(("bank",))
        yield
    finally:
        restore(snap)


@contextmanager
def bank_list_refreshed(banks: list):
    """A run-time update: the bank list is replaced by ``banks`` while the indexes built at import
    are still there, then the library's own index-building statements run again (the refresh)."""
    snap = snapshot()
    try:
        registry.save("bank", banks)
        reinit(("bank",))
        yield
    finally:
        restore(snap)


@contextmanager
def iban_table_saved(table: dict):
    """A run-time update of the country table through registry.save (entries keep their compiled
    'regex' objects; nothing else is re-initialised)."""
    snap = snapshot()
    try:
        registry.save("iban", table)
        yield
    finally:
        restore(snap)


class OrderedDir(type(pathlib.Path())):
    """A directory whose glob() yields entries in an order the harness decides (the OS's listing
    order is nondeterminism the loader must not depend on)."""

    _order = None

    def glob(self, pattern, **kw):
        entries = list(super().glob(pattern, **kw))
        if type(self)._order is not None:
            rank = {n: i for i, n in enumerate(type(self)._order)}
            entries.sort(key=lambda p: rank.get(p.name, len(rank)))
        return iter(entries)

    def __truediv__(self, other):
        return type(self)(super().__truediv__(other))


@contextmanager
def package_data(iban_files: dict | None = None, bank_files: dict | None = None,
                 listing_order: list | None = None, keep_bundled: bool = False):
    """Point the loader at a scratch directory holding the given registry files
    ({file name: JSON document}), load through the real registry.get, re-run the library's
    initialisation, yield, then restore the bundled state."""
    snap = snapshot()
    old_files = registry.files
    tmp = pathlib.Path(tempfile.mkdtemp(prefix="verif_reg_"))
    try:
        pkg = pathlib.Path(lib.schwifty.__file__).parent
        for kind, files in (("iban", iban_files), ("bank", bank_files)):
            d = tmp / f"{kind}_registry"
            if files is None:
                shutil.copytree(pkg / f"{kind}_registry", d)
                continue
            d.mkdir()
            if keep_bundled:
                for p in (pkg / f"{kind}_registry").glob("*.json"):
                    shutil.copy(p, d / p.name)
            for name, doc in files.items():
                (d / name).write_text(doc if isinstance(doc, str) else json.dumps(doc), encoding="utf-8")
        OrderedDir._order = listing_order
        registry.files = lambda _pkg: OrderedDir(tmp)
        registry._registry.clear()
        kinds = tuple(k for k, f in (("iban", iban_files), ("bank", bank_files)) if f is not None)
        if "iban" not in kinds:
            registry._registry["iban"] = snap["iban"]
        if "bank" not in kinds:
            for k in snap:
                if k != "iban":
                    registry._registry[k] = snap[k]
        reinit(kinds)
        yield tmp
    finally:
        registry.files = old_files
        OrderedDir._order = None
        restore(snap)
        shutil.rmtree(tmp, ignore_errors=True)


def deep_snapshot():
    return copy.deepcopy({k: v for k, v in registry._registry.items() if k != "iban"}), {
        k: {kk: vv for kk, vv in v.items() if kk != "regex"} | {"regex": v["regex"].pattern}
        for k, v in copy.copy(registry._registry["iban"]).items()}


def assert_restored(before) -> None:
    after = deep_snapshot()
    if after != before:
        raise HarnessError("registry sandbox did not restore the bundled state")
