"""E2 - schedule explorer for real threads (stateless, preemption-bounded).

N worker threads each run one library call.  A ``sys.settrace`` function installs a local trace
function only in frames whose code lives under the repo's ``schwifty/`` directory; every ``line``
event (and every ``opcode`` event in the finer mode) is a *scheduling point*.  Exactly one worker
runs at a time (per-thread semaphore baton); at every scheduling point the running worker asks
the E1 chooser whether to continue (answer 0) or to hand the baton to another runnable worker
(a preemption, cost 1).  When a worker finishes, the next one is chosen free of cost.  Code
outside ``schwifty/`` (re, json, pycountry with its real lock, rstr, random) executes atomically
inside one step.  Worker threads are real ``threading.Thread`` objects kept alive across the
executions of one harness (each execution still starts every operation from scratch).
"""
from __future__ import annotations

import os
import sys
import threading

from .. import lib
from . import choice
from .report import HarnessError

SRC = os.path.join(str(lib.REPO), "schwifty") + os.sep

import dis  # noqa: E402

_LOCAL_NAMES = [
    "CACHE", "NOP", "RESUME", "EXTENDED_ARG", "KW_NAMES", "PUSH_NULL", "POP_TOP", "COPY", "SWAP",
    "LOAD_CONST", "LOAD_FAST", "LOAD_FAST_CHECK", "LOAD_FAST_AND_CLEAR", "STORE_FAST", "DELETE_FAST",
    "JUMP_FORWARD", "JUMP_BACKWARD", "JUMP_BACKWARD_NO_INTERRUPT", "RETURN_VALUE", "RETURN_CONST",
    "BUILD_TUPLE", "BUILD_LIST", "BUILD_SLICE", "BUILD_STRING", "MAKE_FUNCTION", "LOAD_CLOSURE",
    "MAKE_CELL", "COPY_FREE_VARS", "END_FOR", "IS_OP", "PUSH_EXC_INFO", "POP_EXCEPT",
    "LOAD_ASSERTION_ERROR", "RETURN_GENERATOR",
]
LOCAL_OPS = frozenset(dis.opmap[n] for n in _LOCAL_NAMES if n in dis.opmap)
STEP_LIMIT = 20_000_000


class State:
    """What one execution recorded."""

    def __init__(self, n):
        self.finished = [False] * n
        self.results = [None] * n
        self.steps = [0] * n
        self.total_steps = 0
        self.preemptions = 0
        self.switch_log: list = []
        self.fingerprints: set = set()
        self.forced_switches = 0
        self.local_steps = 0
        self.error = None


class Hang(HarnessError):
    """No worker made progress within the timeout: a thread is blocked on a real lock (the library
    has no blocking operation of its own, so this is reported as a violation by C14)."""


HANG_TIMEOUT = 20
BLOCK_POLL = 0.02      # seconds between looks at a thread that holds the baton but makes no steps
BLOCK_CONFIRM = 10     # consecutive polls in kernel state 'S' with no CPU time consumed before it counts as blocked


def _thread_status(native_id):
    """Linux: (scheduler state, CPU ticks consumed so far) of one thread from /proc.  A thread that
    waits on a lock is in state S and consumes no CPU time; a thread that is running library code
    outside schwifty/ (and is at worst waiting for the interpreter lock now and then, which shows as
    S too) keeps consuming CPU time."""
    try:
        with open(f"/proc/self/task/{native_id}/stat") as f:
            data = f.read()
        rest = data[data.rindex(")") + 2:].split()
        return rest[0], int(rest[11]) + int(rest[12])
    except Exception:  # noqa: BLE001
        return "?", -1


class Runner:
    def __init__(self, n: int, opcode: bool = False, fingerprint=None, per_line_limit: int | None = None):
        self.n = n
        # at most this many switch offers per (thread, source line): loops over thousands of
        # registry entries would otherwise offer a preemption at every iteration
        self.per_line_limit = per_line_limit
        self.line_hits: dict = {}
        self.opcode = opcode
        self.fingerprint = fingerprint
        self.go = [threading.Semaphore(0) for _ in range(n)]
        self.done_evt = threading.Semaphore(0)
        self.stop = False
        self.ops = None
        self.ch = None
        self.st = None
        self.broken = False
        self.running = None          # thread that holds the baton
        self.blocked: set = set()    # threads stuck in a REAL lock held by a preempted thread
        self.native = [None] * n
        self.atomic = [0] * n
        self.line_start = [False] * n
        # all workers carry the SAME thread name: names are not unique identifiers, and state keyed
        # by them must not be shared
        self.threads = [threading.Thread(target=self._loop, args=(i,), daemon=True, name="worker")
                        for i in range(n)]
        for t in self.threads:
            t.start()

    # ---- tracing -------------------------------------------------------------------------
    def _tracer(self, tid):
        opcode = self.opcode
        # bytecode granularity: the 'line' event and the 'opcode' event of a line's first instruction
        # are the same place - only the opcode events are scheduling points there
        wanted = "opcode" if opcode else "line"

        hybrid = opcode == "hybrid"

        def local(frame, event, arg):
            if event == wanted:
                self._point(tid, frame)
            elif hybrid and event == "line":
                self.line_start[tid] = True
            return local

        def modlocal(frame, event, arg):
            # a module body (an import in progress holds the interpreter's import lock for that
            # module): no switching until it returns
            if event == "return":
                self.atomic[tid] -= 1
            return modlocal

        def glob(frame, event, arg):
            if event == "call" and frame.f_code.co_filename.startswith(SRC):
                if frame.f_code.co_name == "<module>":
                    self.atomic[tid] += 1
                    return modlocal
                if opcode:
                    frame.f_trace_opcodes = True
                return local
            return None
        return glob

    def _point(self, tid, frame):
        st = self.st
        if st.error is not None:
            return
        if self.running != tid:
            # this thread was blocked on a real lock, lost the baton meanwhile, and has now been
            # woken by the lock's release: it is runnable again but must wait for its turn
            self.blocked.discard(tid)
            self.go[tid].acquire()
        if self.atomic[tid]:
            return
        st.steps[tid] += 1
        st.total_steps += 1
        if st.total_steps > STEP_LIMIT:
            st.error = f"horizon exceeded ({STEP_LIMIT} steps): livelock?"
            return
        fin = st.finished
        others = [i for i in range(self.n) if i != tid and not fin[i] and i not in self.blocked]
        if not others:
            return
        code = frame.f_code
        if self.opcode == "hybrid":
            # the FIRST preemption of an execution may fall on any instruction, every further one
            # only on the first instruction of a source line
            at_line = self.line_start[tid]
            self.line_start[tid] = False
            if st.preemptions >= 1 and not at_line:
                return
            if at_line:
                pass  # a line start is a scheduling point whatever its first instruction is
            elif code.co_code[frame.f_lasti] in LOCAL_OPS:
                st.local_steps += 1
                return
        elif self.opcode and code.co_code[frame.f_lasti] in LOCAL_OPS:
            # partial-order reduction: an instruction that only moves values between the thread's
            # own evaluation stack, fast locals and constants commutes with everything the other
            # threads do, so a switch right before it is equivalent to a switch before the next
            # instruction that can touch shared memory (attribute / global / subscript access, calls,
            # operators, truth tests, iteration) - which still gets its own scheduling point
            st.local_steps += 1
            return
        label = (tid, code.co_name, frame.f_lineno, frame.f_lasti) if self.opcode else (
            tid, code.co_name, frame.f_lineno)
        if self.per_line_limit is not None:
            h = self.line_hits.get(label, 0) + 1
            self.line_hits[label] = h
            if h > self.per_line_limit:
                return
        try:
            c = self.ch.choose(label, 1 + len(others))
        except BaseException as e:  # noqa: BLE001
            st.error = repr(e)
            return
        if c:
            st.preemptions += 1
            to = others[c - 1]
            if self.fingerprint is not None:
                st.fingerprints.add(self.fingerprint())
            st.switch_log.append((tid, st.steps[tid], to))
            self._handoff(tid, to)

    def _handoff(self, me, to):
        """Give the baton to ``to`` and wait for it to come back.  If ``to`` turns out to be stuck in
        a real lock (kernel state 'sleeping', no scheduling steps) the baton is taken back: blocking
        is a forced context switch, not a deadlock - the lock holder must be able to run on."""
        st = self.st
        self.running = to
        self.go[to].release()
        idle = 0
        last = st.steps[to]
        cpu0 = None
        while not self.go[me].acquire(timeout=BLOCK_POLL):
            if self.running != to or st.finished[to]:
                idle = 0
                continue
            if st.steps[to] != last:
                last, idle = st.steps[to], 0
                continue
            nid = self.native[to]
            state, cpu = _thread_status(nid) if nid is not None else ("?", -1)
            if state == "S" and cpu >= 0 and (idle == 0 or cpu == cpu0):
                if idle == 0:
                    cpu0 = cpu
                idle += 1
            else:
                idle = 0
            if idle >= BLOCK_CONFIRM:
                self.blocked.add(to)
                st.forced_switches += 1
                self.running = me
                return

    # ---- workers -------------------------------------------------------------------------
    def _loop(self, tid):
        while True:
            self.go[tid].acquire()
            if self.stop:
                return
            st = self.st
            self.native[tid] = threading.get_native_id()
            tracer = self._tracer(tid)
            sys.settrace(tracer)
            try:
                res = self.ops[tid]()
            except BaseException as e:  # noqa: BLE001
                res = ("harness-escape", repr(e))
                st.error = st.error or repr(e)
            finally:
                sys.settrace(None)
            st.results[tid] = res
            st.finished[tid] = True
            rest = [i for i in range(self.n) if not st.finished[i]]
            if not rest:
                self.done_evt.release()
                continue
            # threads stuck in a real lock become runnable once it is released: wait for them
            waited = 0.0
            while all(i in self.blocked for i in rest) and waited < HANG_TIMEOUT:
                import time
                time.sleep(BLOCK_POLL)
                waited += BLOCK_POLL
            runnable = [i for i in rest if i not in self.blocked]
            if not runnable:
                continue  # genuinely stuck: run() reports the hang after its timeout
            c = 0
            if st.error is None:
                try:
                    c = self.ch.choose(f"t{tid}:finished", len(runnable), free=True)
                except BaseException as e:  # noqa: BLE001
                    st.error = repr(e)
            self._start_after_finish(st, runnable[c])

    def _start_after_finish(self, st, nxt):
        """The finished thread hands the baton on and stays as a monitor until the chosen thread has
        made a step: if that thread turns out to be stuck in a real lock (held by a preempted thread
        that is waiting for the baton), it is marked blocked and another runnable thread is started
        instead - otherwise nobody would ever run the lock holder."""
        import time
        self.running = nxt
        self.go[nxt].release()
        idle, last, cpu0 = 0, st.steps[nxt], None
        # the common case first: the chosen thread makes a step within a fraction of a millisecond
        for _ in range(40):
            if st.steps[nxt] != last or st.finished[nxt] or self.running != nxt:
                return
            time.sleep(0.00005)
        while not st.finished[nxt] and self.running == nxt and st.error is None and not self.stop:
            time.sleep(BLOCK_POLL)
            if st.steps[nxt] != last:
                return  # it runs; from here on its own hand-offs watch over blocking
            nid = self.native[nxt]
            state, cpu = _thread_status(nid) if nid is not None else ("?", -1)
            if state == "S" and cpu >= 0 and (idle == 0 or cpu == cpu0):
                if idle == 0:
                    cpu0 = cpu
                idle += 1
            else:
                idle = 0
            if idle >= BLOCK_CONFIRM:
                others = [i for i in range(self.n) if not st.finished[i] and i not in self.blocked and i != nxt]
                if not others:
                    return  # nothing else can run: run() reports the hang after its timeout
                self.blocked.add(nxt)
                st.forced_switches += 1
                nxt = others[0]
                self.running = nxt
                self.go[nxt].release()
                idle, last, cpu0 = 0, st.steps[nxt], None

    def run(self, ops, ch: choice.Chooser):
        if self.broken:
            raise HarnessError("runner is broken")
        self.ops, self.ch, self.st = ops, ch, State(self.n)
        self.line_hits = {}
        self.blocked = set()
        first = ch.choose("start", self.n, free=True)
        self.running = first
        self.go[first].release()
        # a hang is "no scheduling step anywhere for HANG_TIMEOUT seconds", not "the execution took
        # longer than that": a loaded machine must not turn a slow execution into an alarm
        last, quiet = -1, 0.0
        while not self.done_evt.acquire(timeout=1.0):
            if self.st.total_steps != last:
                last, quiet = self.st.total_steps, 0.0
                continue
            quiet += 1.0
            if quiet >= HANG_TIMEOUT:
                self.broken = True
                raise Hang(f"deadlock or hang: finished={self.st.finished} steps={self.st.steps}")
        if self.st.error:
            self.broken = True
            raise HarnessError(self.st.error)
        return self.st

    def close(self):
        self.stop = True
        for g in self.go:
            g.release()


def run_once(ops, answers=(), labels=None, opcode=False, fingerprint=None):
    r = Runner(len(ops), opcode, fingerprint)
    try:
        ch = choice.Chooser(answers, labels)
        st = r.run(ops, ch)
        return ch, st, st.results
    finally:
        r.close()


def explore(make_ops, n: int, bound: int, opcode: bool = False, fingerprint=None, max_runs=None,
            per_line_limit: int | None = None):
    """Yield (chooser, state, results) for every schedule with <= ``bound`` preemptions.
    ``make_ops()`` must build fresh operation closures for each execution."""
    r = Runner(n, opcode, fingerprint, per_line_limit=per_line_limit)

    def run(ch):
        st = r.run(make_ops(), ch)
        return st

    try:
        run(choice.Chooser())  # warm-up of these worker threads (see warm_up), result discarded
        for ch, st in choice.explore(run, bound, max_runs=max_runs, check_labels=True):
            yield ch, st, st.results
    finally:
        r.close()


def warm_up(ops, opcode=False):
    """Run each op alone under tracing (CPython 3.12 delivers opcode events only after one traced
    call); returns solo results and step counts."""
    out, steps = [], []
    r = Runner(1, opcode)
    try:
        for op in ops:
            r.run([op], choice.Chooser())
            st = r.run([op], choice.Chooser())
            out.append(st.results[0])
            steps.append(st.steps[0])
    finally:
        r.close()
    return out, steps


# ------------------------------------------------------------------------------- cold start
COLD_PER_LINE_LIMIT = 3
def _cold_exec(specs, make_op, prefix, labels, opcode, after=None):
    """In a forked copy of the pristine process: build the operations and run ONE schedule; then
    (``after``) whatever the caller wants to look at in the state the schedule left behind."""
    ops = [make_op(sp) for sp in specs]
    r = Runner(len(ops), opcode, per_line_limit=COLD_PER_LINE_LIMIT)
    try:
        ch = choice.Chooser(prefix, labels)
        st = r.run(ops, ch)
        results = st.results if after is None else (list(st.results), after())
        return (ch.trace, ch.free, results, st.steps, st.preemptions, st.switch_log)
    finally:
        r.close()


def _cold_exec_ops(make_ops, prefix, labels, opcode, per_line_limit=COLD_PER_LINE_LIMIT, readback=False):
    ops = make_ops()
    r = Runner(len(ops), opcode, per_line_limit=per_line_limit)
    try:
        ch = choice.Chooser(prefix, labels)
        st = r.run(ops, ch)
        results = st.results
        if readback:
            # after the threads have finished: every operation once more, alone, in this process
            results = (list(st.results), [op() for op in make_ops()])
        return (ch.trace, ch.free, results, st.steps, st.preemptions, st.switch_log)
    finally:
        r.close()


def explore_forked(make_ops, bound: int, opcode: bool = False, readback: bool = False,
                   per_line_limit: int | None = None):
    """Every execution in its own fork of the calling process (ops built by ``make_ops`` inside the
    child): used when a library under test carries state from one execution into the next, so that
    replaying a schedule prefix in the same process would not see the same behaviour."""
    from .par import in_child

    def run(ch):
        # forks of a WARMED process (read-back mode): no per-line limit on switch offers
        trace, free, results, steps, pre, log = in_child(_cold_exec_ops, make_ops, ch.prefix, ch.labels, opcode,
                                                         per_line_limit if readback else COLD_PER_LINE_LIMIT, readback)
        ch.trace, ch.free = list(trace), list(free)
        return results, steps, pre, log

    for ch, (results, steps, pre, log) in choice.explore(run, bound, check_labels=True):
        yield ch, results, steps, pre, log


def explore_cold(specs, make_op, bound: int, opcode: bool = False, after=None):
    """Like ``explore`` but every execution starts in its own fork of the (pristine, post-import)
    calling process, so that first-use code paths - lazy initialisation, caches filled on first
    access - are interleaved too.  Yields (chooser, results, steps, preemptions, switch_log)."""
    from .par import in_child

    def run(ch):
        trace, free, results, steps, pre, log = in_child(_cold_exec, specs, make_op, ch.prefix, ch.labels, opcode, after)
        ch.trace, ch.free = list(trace), list(free)
        return results, steps, pre, log

    for ch, (results, steps, pre, log) in choice.explore(run, bound, check_labels=True):
        yield ch, results, steps, pre, log
