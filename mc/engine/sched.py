"""E2 - schedule explorer for real threads (stateless, preemption-bounded).

N worker threads each run one library call.  A ``sys.settrace`` function installs a local trace
function only in frames whose code lives under the repo's ``schwifty/`` directory; every ``line``
event (and every ``opcode`` event in the finer mode) is a *scheduling point*.  Exactly one worker
runs at a time (per-thread semaphore baton); at every scheduling point the running worker asks
the E1 chooser whether to continue (answer 0) or to hand the baton to another runnable worker
(a preemption, cost 1).  When a worker finishes, the next one is chosen free of cost.  Code
outside ``schwifty/`` (re, json, pycountry with its real lock, rstr, random) executes atomically
inside one step.
"""
from __future__ import annotations

import os
import sys
import threading

from .. import lib
from . import choice
from .report import HarnessError

SRC = os.path.join(str(lib.REPO), "schwifty") + os.sep
HORIZON_FACTOR = 10


class Execution:
    def __init__(self, ops, ch: choice.Chooser, opcode: bool, fingerprint=None, step_limit=100000):
        self.ops = ops
        self.ch = ch
        self.opcode = opcode
        self.n = len(ops)
        self.go = [threading.Semaphore(0) for _ in ops]
        self.done_evt = threading.Semaphore(0)
        self.finished = [False] * self.n
        self.started = [False] * self.n
        self.results = [None] * self.n
        self.steps = [0] * self.n
        self.total_steps = 0
        self.step_limit = step_limit
        self.preemptions = 0
        self.switch_log: list = []
        self.fingerprint = fingerprint
        self.fingerprints: set = set()
        self.error = None
        self.running = None

    # ---- tracing -------------------------------------------------------------------------
    def _global_trace(self, tid):
        def local(frame, event, arg):
            if event == "line" or event == "opcode":
                self._point(tid, frame)
            return local

        def glob(frame, event, arg):
            if event == "call" and frame.f_code.co_filename.startswith(SRC):
                if self.opcode:
                    frame.f_trace_opcodes = True
                return local
            return None
        return glob

    def _runnable(self):
        return [i for i in range(self.n) if not self.finished[i]]

    def _point(self, tid, frame):
        if self.error is not None:
            return
        self.steps[tid] += 1
        self.total_steps += 1
        if self.total_steps > self.step_limit:
            self.error = f"horizon exceeded ({self.step_limit} steps): livelock?"
            return
        others = [i for i in self._runnable() if i != tid]
        if not others:
            return
        label = f"t{tid}@{os.path.basename(frame.f_code.co_filename)}:{frame.f_lineno}" + (
            f"+{frame.f_lasti}" if self.opcode else "")
        c = self.ch.choose(label, 1 + len(others))
        if c:
            self.preemptions += 1
            self._handoff(tid, others[c - 1], label)

    def _handoff(self, me, to, label):
        if self.fingerprint is not None:
            self.fingerprints.add(self.fingerprint())
        self.switch_log.append((me, self.steps[me], to))
        self.running = to
        self.go[to].release()
        self.go[me].acquire()

    # ---- workers -------------------------------------------------------------------------
    def _worker(self, tid):
        self.go[tid].acquire()
        self.started[tid] = True
        sys.settrace(self._global_trace(tid))
        try:
            self.results[tid] = self.ops[tid]()
        except BaseException as e:  # noqa: BLE001
            self.results[tid] = ("harness-escape", repr(e))
            if isinstance(e, (choice.ReplayDivergence, HarnessError)):
                self.error = repr(e)
        finally:
            sys.settrace(None)
        self.finished[tid] = True
        rest = self._runnable()
        if rest and self.error is None:
            try:
                c = self.ch.choose(f"t{tid}:finished", len(rest), free=True)
            except BaseException as e:  # noqa: BLE001
                self.error = repr(e)
                c = 0
            self.running = rest[c]
            self.go[rest[c]].release()
        elif rest:
            self.running = rest[0]
            self.go[rest[0]].release()
        else:
            self.done_evt.release()

    def run(self):
        threads = [threading.Thread(target=self._worker, args=(i,), daemon=True) for i in range(self.n)]
        for t in threads:
            t.start()
        first = self.ch.choose("start", self.n, free=True)
        self.running = first
        self.go[first].release()
        if not self.done_evt.acquire(timeout=60):
            raise HarnessError(f"deadlock or hang: finished={self.finished} running={self.running}")
        for t in threads:
            t.join(timeout=10)
        if self.error:
            raise HarnessError(self.error)
        return self.results


def run_once(ops, answers=(), labels=None, opcode=False, fingerprint=None):
    ch = choice.Chooser(answers, labels)
    ex = Execution(ops, ch, opcode, fingerprint)
    res = ex.run()
    return ch, ex, res


def explore(make_ops, bound: int, opcode: bool = False, fingerprint=None, max_runs=None):
    """Yield (chooser, execution, results) for every schedule with <= ``bound`` preemptions.
    ``make_ops()`` must build fresh operation closures for each execution."""
    def run(ch):
        ex = Execution(make_ops(), ch, opcode, fingerprint)
        res = ex.run()
        return ex, res

    for ch, (ex, res) in choice.explore(run, bound, max_runs=max_runs, check_labels=True):
        yield ch, ex, res


def warm_up(ops, opcode=False):
    """Run each op alone under tracing (CPython 3.12 delivers opcode events only after one traced
    call); returns solo results and step counts."""
    out, steps = [], []
    for op in ops:
        ch, ex, res = run_once([op], opcode=opcode)
        ch, ex, res = run_once([op], opcode=opcode)
        out.append(res[0])
        steps.append(ex.steps[0])
    return out, steps
