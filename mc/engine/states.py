"""E3 - explicit-state exploration over the library's global state.

* ``fingerprint()``  canonical form of the *small* mutable state of every ``schwifty*`` module:
  module globals, class attributes and (recursively) instance dictionaries and property values
  of objects reachable from them - everything except the big registry payload;
* ``RegistrySnapshot`` compares the big, supposedly read-only registry data against a deep copy
  taken right after import (content, and order wherever order is observable);
* ``in_child(fn)`` runs ``fn`` in a forked copy of the current (pristine, post-import) process,
  which is how a state is (re-)created: fork the pristine image and replay the history.
"""
from __future__ import annotations

import copy
import enum
import os
import pickle
import re
import sys
import types

from .. import lib
from .report import HarnessError

_ATOMS = (int, float, str, bytes, bool, type(None))
SKIP_GLOBALS = {"__builtins__", "__doc__", "__loader__", "__spec__", "__cached__", "__file__",
                "__name__", "__package__", "__path__", "__annotations__",
                "__warningregistry__"}  # the last one is the warnings module's own bookkeeping


def canon(v, depth=0, seen=None):
    if seen is None:
        seen = set()
    if isinstance(v, enum.Enum):
        return ("enum", type(v).__name__, v.name)
    if isinstance(v, _ATOMS):
        return v
    if isinstance(v, re.Pattern):
        return ("re", v.pattern, v.flags)
    if depth > 6:
        return ("deep", type(v).__name__)
    if id(v) in seen:
        return ("cycle", type(v).__name__)
    seen = seen | {id(v)}
    if isinstance(v, dict):
        if len(v) > 300:
            return ("bigdict", len(v), canon(list(v)[:3], depth + 1, seen))
        return ("dict", tuple((canon(k, depth + 1, seen), canon(x, depth + 1, seen)) for k, x in v.items()))
    if isinstance(v, (list, tuple)):
        if len(v) > 300:
            return ("bigseq", len(v))
        return (type(v).__name__, tuple(canon(x, depth + 1, seen) for x in v))
    if isinstance(v, (set, frozenset)):
        return ("set", tuple(sorted(repr(canon(x, depth + 1, seen)) for x in v)))
    if isinstance(v, (types.FunctionType, types.BuiltinFunctionType, types.MethodType, type,
                      types.ModuleType, classmethod, staticmethod, property)):
        info = getattr(v, "cache_info", None)
        if callable(info):
            try:
                return ("cached-callable", getattr(v, "__qualname__", "?"), tuple(info()))
            except Exception:  # noqa: BLE001
                pass
        return ("callable", getattr(v, "__qualname__", type(v).__name__))
    mod = getattr(type(v), "__module__", "")
    if not mod.startswith("schwifty"):
        return ("foreign-object", type(v).__module__, type(v).__name__)
    # an instance of a library class: its dict plus the values of its properties
    out = [("class", type(v).__qualname__)]
    d = getattr(v, "__dict__", None)
    if d:
        for k in sorted(d):
            out.append((k, canon(d[k], depth + 1, seen)))
    for klass in type(v).__mro__:
        for name, attr in vars(klass).items():
            if isinstance(attr, property) and klass.__module__.startswith("schwifty.checksum"):
                try:
                    out.append(("prop:" + name, canon(getattr(v, name), depth + 1, seen)))
                except Exception as e:  # noqa: BLE001
                    out.append(("prop:" + name, ("raises", type(e).__name__)))
    return tuple(out)


def fingerprint_items():
    items = []
    for name in sorted(sys.modules):
        if not (name == "schwifty" or name.startswith("schwifty.")):
            continue
        mod = sys.modules[name]
        for g, v in sorted(vars(mod).items()):
            if g in SKIP_GLOBALS:
                continue
            if isinstance(v, types.ModuleType):
                continue
            if name == "schwifty.registry" and g == "_registry":
                items.append((name, g, ("registry-keys", tuple((canon(k), type(x).__name__, len(x))
                                                               for k, x in v.items()))))
                continue
            if isinstance(v, type):
                if getattr(v, "__module__", "") != name:
                    continue
                for a, x in sorted(vars(v).items()):
                    if a.startswith("__") or isinstance(x, (types.FunctionType, classmethod, staticmethod,
                                                            property, type)):
                        if callable(getattr(x, "cache_info", None)):
                            items.append((name, f"{g}.{a}", canon(x)))
                        continue
                    items.append((name, f"{g}.{a}", canon(x)))
                continue
            if isinstance(v, (types.FunctionType, types.BuiltinFunctionType)):
                if callable(getattr(v, "cache_info", None)):
                    items.append((name, g, canon(v)))
                continue
            items.append((name, g, canon(v)))
    return items


def interpreter_probes():
    """Process-wide settings of the interpreter and the standard library that a library call could
    change and forget to put back (they are state between calls just like a module global)."""
    import decimal
    import locale
    import warnings
    out = [("sys", "int_max_str_digits", sys.get_int_max_str_digits()),
           ("sys", "recursionlimit", sys.getrecursionlimit()),
           ("sys", "switchinterval", sys.getswitchinterval()),
           ("sys", "trace-or-profile-hooks", (sys.getprofile() is not None)),
           ("warnings", "filters", tuple((f[0], getattr(f[2], "__name__", str(f[2]))) for f in warnings.filters)),
           ("decimal", "context", (decimal.getcontext().prec, decimal.getcontext().rounding)),
           ("locale", "LC_ALL", locale.setlocale(locale.LC_ALL)),
           ("os", "cwd-and-umask-free", os.getcwd())]
    return out


def foreign_probes():
    """State of other packages that the library is known to touch: pycountry's country database
    (forcing its lazy load is itself harmless and idempotent); plus the interpreter-wide settings."""
    return _pycountry_probe() + interpreter_probes()


def _pycountry_probe():
    try:
        import pycountry
        codes = sorted(c.alpha_2 for c in pycountry.countries)
        return [("pycountry", "countries", (len(codes), hash(tuple(codes))))]
    except Exception as e:  # noqa: BLE001
        return [("pycountry", "countries", ("unavailable", type(e).__name__))]


def fingerprint() -> str:
    import hashlib
    items = fingerprint_items() + foreign_probes()
    return hashlib.sha1(repr(items).encode("utf-8", "backslashreplace")).hexdigest()[:16]


def diff_items(a, b):
    da, db = {(m, g): v for m, g, v in a}, {(m, g): v for m, g, v in b}
    return sorted(f"{m}.{g}" for (m, g) in set(da) | set(db) if da.get((m, g)) != db.get((m, g)))


def type_census(value):
    """The set of exact type names found among the keys and leaves of one registry payload (list of
    entry dicts, or index dict -> list of entry dicts); computed with C-level iteration only."""
    import itertools
    chain = itertools.chain.from_iterable
    try:
        if isinstance(value, dict):
            keys = set(map(type, value))
            parts = set(map(type, chain(k for k in value if type(k) is tuple)))
            lists = set(map(type, value.values()))
            entries = set(map(type, chain(v for v in value.values() if type(v) is list)))
            return frozenset(t.__name__ for t in keys | parts | lists | entries)
        entries = set(map(type, value))
        leaves = set(map(type, chain(map(dict.values, value))))
        names = set(map(type, chain(map(dict.keys, value))))
        return frozenset(t.__name__ for t in entries | leaves | names)
    except TypeError as e:
        return frozenset(["<irregular: %s>" % e])


def identity_signature(value):
    """ids of the container, of every entry (in order) and of every leaf value / key object, computed
    with C-level iteration; None if the payload does not have the expected shape."""
    import itertools
    chain = itertools.chain.from_iterable
    try:
        if isinstance(value, dict):
            lists = list(value.values())
            return (id(value), list(map(id, value)), list(map(id, lists)), list(map(id, chain(lists))))
        return (id(value), list(map(id, value)), list(map(id, chain(map(dict.values, value)))))
    except TypeError:
        return None


class RegistrySnapshot:
    def __init__(self):
        reg = lib.registry._registry
        self.keys = list(reg)
        self.big = copy.deepcopy({k: v for k, v in reg.items() if k != "iban"})
        self.iban = {k: {kk: (vv.pattern if isinstance(vv, re.Pattern) else copy.deepcopy(vv))
                         for kk, vv in v.items()} for k, v in reg["iban"].items()}
        self.iban_order = list(reg["iban"])
        self.types = {k: type_census(v) for k, v in self.big.items()}
        # identity signature of the LIVE payload (this object is created in the pristine process and
        # used in forks of it, where addresses are the same): containers, entries and leaf values
        self.idsig = {k: identity_signature(v) for k, v in reg.items() if k != "iban"}

    def check(self):
        """-> None or a description of the first difference."""
        reg = lib.registry._registry
        if list(reg) != self.keys:
            return f"registry keys changed: {self.keys} -> {list(reg)}"
        for k, snap in self.big.items():
            cur = reg[k]
            sig = identity_signature(cur)
            if sig is not None and sig == self.idsig.get(k):
                # the very same container, entry and (immutable) leaf objects in the same order:
                # nothing was added, removed, reordered or rebound - no need to compare contents
                continue
            if type(cur) is not type(snap):
                return f"registry[{k!r}] changed type"
            if type_census(cur) != self.types[k]:
                # '==' cannot see a str replaced by an equal instance of a str subclass
                return (f"registry[{k!r}]: the types of its values changed: "
                        f"{sorted(self.types[k])} -> {sorted(type_census(cur))}")
            if isinstance(cur, dict):
                if list(cur) != list(snap):
                    return f"registry[{k!r}] key set or key order changed"
                if cur != snap:
                    bad = next(kk for kk in snap if cur[kk] != snap[kk])
                    return f"registry[{k!r}][{bad!r}] changed"
            elif cur != snap:
                i = next((i for i, (a, b) in enumerate(zip(cur, snap)) if a != b), None)
                return f"registry[{k!r}] changed (length {len(snap)} -> {len(cur)}, first differing index {i})"
        cur = reg["iban"]
        if list(cur) != self.iban_order:
            return "registry['iban'] key order changed"
        for c, spec in self.iban.items():
            now = {kk: (vv.pattern if isinstance(vv, re.Pattern) else vv) for kk, vv in cur[c].items()}
            if now != spec:
                return f"registry['iban'][{c!r}] changed"
        return None


from .par import in_child  # noqa: E402,F401  (kept under this name for the state explorer)
