"""Binding to the implementation under test: imports schwifty from the working tree at
VERIF_REPO (default /repo) and offers outcome-classifying wrappers.  Every check executes the
real library through these."""
from __future__ import annotations

import os
import sys
import warnings
from pathlib import Path

REPO = Path(os.environ.get("VERIF_REPO", "/repo")).resolve()
if str(REPO) not in sys.path:
    sys.path.insert(0, str(REPO))
os.environ.setdefault("SCHWIFTY_VERIF", "1")  # hook guard (no hooks are needed today)

import schwifty  # noqa: E402
from schwifty import BBAN, BIC, IBAN, checksum, exceptions, registry  # noqa: E402,F401
from schwifty.exceptions import SchwiftyException  # noqa: E402

if not Path(schwifty.__file__).resolve().is_relative_to(REPO):
    raise RuntimeError(f"schwifty imported from {schwifty.__file__}, not from {REPO}")

warnings.simplefilter("ignore", DeprecationWarning)


def outcome(fn, *a, **kw):
    """('ok', value) | ('lib', exception class name) | ('foreign', exception class name)."""
    try:
        return ("ok", fn(*a, **kw))
    except SchwiftyException as e:
        return ("lib", type(e).__name__)
    except Exception as e:  # noqa: BLE001
        return ("foreign", type(e).__name__)


def iban_parse(text: str, validate_bban: bool = False):
    try:
        return ("ok", str(IBAN(text, validate_bban=validate_bban)))
    except SchwiftyException as e:
        return ("lib", type(e).__name__)
    except Exception as e:  # noqa: BLE001
        return ("foreign", type(e).__name__)


def bic_parse(text: str, strict: bool = False):
    try:
        return ("ok", str(BIC(text, enforce_swift_compliance=strict)))
    except SchwiftyException as e:
        return ("lib", type(e).__name__)
    except Exception as e:  # noqa: BLE001
        return ("foreign", type(e).__name__)
