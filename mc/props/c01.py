"""C01 - IBAN acceptance is exactly the ISO 13616 rule set over the bundled country table."""
from __future__ import annotations

import re

from .. import lib
from ..engine import alphabet, bases, families, par, report
from ..ref import iban as ri
from ..ref import reg

PID = "C01"
RULE = ("per country x base text (reference check digits + structure-conforming BBAN under the "
        "fillers listed in 'fillers'): every position x every character of the wide alphabet W "
        "substituted / inserted, every position deleted, every length 0..40 (prefixes, "
        "extensions by 0^n / A^n, as-is and with recomputed check digits), every two-character "
        "prefix over [0-9A-Z] (as-is and rechecked), all 100 check-digit pairs"
        "; thorough adds every pair of positions x W2 x W2. Each text -> IBAN(text), verdict "
        "compared with the reference model R-IBAN. A case is non-trivial if it is not the "
        "unmodified base; distinct = distinct input texts.")
_COMPACT_OK = re.compile(r"[A-Z0-9]{1,34}\Z", re.ASCII)


def judge(text: str):
    """-> (ok, signature, expected, observed)"""
    kind, val = lib.iban_parse(text)
    accepted = kind == "ok"
    exp = ri.accept(text)
    if accepted and not (_COMPACT_OK.match(val) and val.isascii()):
        return False, "accepted-compact-not-[A-Z0-9]{<=34}", "compact in [A-Z0-9]{<=34}", val
    if accepted != exp:
        if not exp and accepted and ri.is_alias(text) and ri.defects(text) == {"checksum"}:
            return True, None, None, None  # aliases 00/01/99 are C02's subject
        sig = "accepts-but-reference-rejects" if accepted else "rejects-but-reference-accepts"
        return False, sig, ("accept" if exp else "reject:" + ",".join(sorted(ri.defects(text)))), \
            (kind, val)
    return True, None, None, None


def shard(args):
    if args[0] == "after-activity":
        return after_activity_shard(args)
    if args[0] in INTERPRETERS:
        try:
            return par.in_interpreter(INTERPRETERS[args[0]], "mc.props.c01", "optimised_child", (args[1], args[0]),
                                      env=INTERPRETER_ENV.get(args[0]))
        except report.HarnessError as e:
            if "/schwifty/" not in str(e):
                raise
            # the library itself fails in this interpreter (e.g. cannot even be imported)
            part = par.Part()
            part["evals"] += 1
            part.violation(f"library-unusable [{args[0]}]", {"kind": "iban_text", "text": "DE89370400440532013000",
                           "how": f"import and first call under {args[0]}", "interpreter": args[0]},
                           "accept", str(e)[-400:])
            return part.done()
    country, tier = args
    part = par.Part()
    W = alphabet.wide(thorough=(tier == "thorough"))
    fillers = bases.FILLERS if tier == "thorough" else ["distinct", "seeded"]
    blist = bases.base_ibans(country, fillers)
    sp = bases.self_prefixed(country)
    if sp:
        blist.append(("selfprefix", bases.iban_text(country, sp)))
    # a base rich in the letters that non-ASCII characters upper-case to (I, S, F, T, L)
    c0 = reg.countries()[country]
    cl0 = bases.classes_of(c0)
    rich = "".join(("ISFTL"[i % 5] if k in "ac" else reg.CLASS_CHARS[k][(i + 1) % 10]) for i, k in enumerate(cl0))
    if rich not in {b[4:] for _, b in blist}:
        blist.append(("foldrich", bases.iban_text(country, rich)))
    for filler, base in blist:
        if filler in ("selfprefix", "foldrich"):
            gens = [families.fold_variants(base), families.iban_checkpairs(base)]
            part.count(base, nontrivial=False)
            for gen in gens:
                for fam, text in gen:
                    part.count(text, nontrivial=(text != base), foreign=(text[:2] != country))
                    ok, sig, exp, obs = judge(text)
                    part.stat("family:" + fam.split(":")[0])
                    if not ok:
                        part.violation(f"{sig} [{fam}]", {"kind": "iban_text", "text": text,
                                       "how": f"{fam} from base {filler} {base}"}, exp, obs)
            part.stat("bases")
            continue
        gens = [families.single_edits(base, W), families.iban_lengths(base),
                families.iban_prefixes(base), families.iban_checkpairs(base)]
        gens.append(families.subst_rechecked(base))
        if filler == "distinct":
            gens.append(families.ws_padding(base))
            gens.append(families.token_overlays(base, country))
            gens.append(families.wrapped(base))
            # every value of every small minor field (currency code, account type, ...), rechecked
            gens.append((lab, bases.iban_text(country, b)) for lab, b, _ in families.small_field_bodies(c0, base[4:]))
        if tier == "thorough" and filler in ("distinct", "letters"):
            gens.append(families.double_subst(base))
        k, v = lib.iban_parse(base)
        part.count(base, nontrivial=False)
        if k != "ok":
            part.violation("base-rejected", {"kind": "iban_text", "text": base,
                                             "how": f"base {filler}"}, "accept", (k, v))
        part.stat("bases")
        examples = {}
        for gen in gens:
            for fam, text in gen:
                part.count(text, nontrivial=(text != base), foreign=(text[:2] != country))
                ok, sig, exp, obs = judge(text)
                part.stat("family:" + fam.split(":")[0])
                if len(examples) < 6 and fam not in examples:
                    examples[fam] = text
                if not ok:
                    part.violation(f"{sig} [{fam}]", {"kind": "iban_text", "text": text,
                                   "how": f"{fam} from base {filler} {base}"}, exp, obs)
        part.sample({"country": country, "filler": filler, "base": base, "examples": examples})
    part.stat("countries")
    return part.done()


def after_activity_shard(args):
    """One process: the API prelude (mc/engine/activity.py), then a core enumeration for every
    country against the same oracle - what earlier calls leave behind must not change acceptance."""
    from ..engine import activity
    _, tier = args
    part = par.Part()
    part.stat("prelude_calls", activity.exercise_api(report.SEED))
    small = ["0", "5", "A", "Z", "a", "-", " ", "٣"]
    for country in sorted(reg.countries()):
        for filler, base in bases.base_ibans(country, ["distinct"]):
            for gen in (families.iban_checkpairs(base), families.single_edits(base, small),
                        families.iban_lengths(base)):
                for fam, text in gen:
                    part.count(("after", text), nontrivial=(text != base))
                    ok, sig, exp, obs = judge(text)
                    if not ok:
                        part.violation(f"{sig} [{fam}, after API activity]", {"kind": "iban_text", "text": text,
                                       "how": f"{fam} from base {base}, after the API prelude"}, exp, obs)
    part.stat("after_activity_shards")
    part.sample({"after_activity": True, "countries": len(reg.countries())})
    return part.done()


INTERPRETERS = {"python -O": ["-O"], "python -W error": ["-W", "error"],
                # a process whose locale is not UTF-8 (files opened without an explicit encoding are read
                # as ASCII there)
                "python, C locale": ["-X", "utf8=0"]}
INTERPRETER_ENV = {"python, C locale": {"LC_ALL": "C", "LANG": "C", "PYTHONUTF8": "0", "PYTHONCOERCECLOCALE": "0"}}


def spelled(base):
    yield ("spelling:lower", base.lower())
    yield ("spelling:printed-lower", " ".join(base[i:i + 4] for i in range(0, len(base), 4)).lower())
    yield ("spelling:mixed", base[:6] + base[6:].lower())


def optimised_child(arg):
    """Runs inside a brand-new interpreter started with other options (``python -O``: asserts are
    compiled away; ``python -W error``: every warning is an exception): check pairs, small-alphabet
    single edits, lengths and lower-case / printed spellings per country."""
    tier, label = arg if isinstance(arg, tuple) else (arg, "python -O")
    part = par.Part()
    small = ["0", "5", "A", "Z", "a", "-", " ", "٣"]
    for country in sorted(reg.countries()):
        for filler, base in bases.base_ibans(country, ["distinct"]):
            for gen in (families.iban_checkpairs(base), families.single_edits(base, small),
                        families.iban_lengths(base), spelled(base)):
                for fam, text in gen:
                    part.count((label, text), nontrivial=(text != base))
                    ok, sig, exp, obs = judge(text)
                    if not ok:
                        part.violation(f"{sig} [{fam}, {label}]", {"kind": "iban_text", "text": text,
                                       "how": f"{fam} from base {base}, {label}", "interpreter": label},
                                       exp, obs)
    part.stat("optimised_interpreter_runs")
    return part.done()


def replay(case: dict) -> dict:
    if case.get("interpreter"):
        label = "python -O" if case["interpreter"] == "-O" else case["interpreter"]
        try:
            part = par.in_interpreter(INTERPRETERS[label], "mc.props.c01", "optimised_child", ("quick", label),
                                      env=INTERPRETER_ENV.get(label))
        except report.HarnessError as e:
            if "/schwifty/" not in str(e):
                raise
            return {"ok": False, "observed": str(e)[-400:], "interpreter": label}
        hit = [v for v in part["violations"] if v["case"]["text"] == case["text"]]
        return {"ok": not hit, "observed": hit[0]["observed"] if hit else None, "interpreter": label}
    ok, sig, exp, obs = judge(case["text"])
    return {"ok": ok, "signature": sig, "expected": exp, "observed": obs}


def main(tier: str) -> int:
    run = report.Run(PID, tier, "exploration", RULE)
    countries = sorted(reg.countries())
    par.run_shards(run, shard, [("after-activity", tier)] + [(lb, tier) for lb in INTERPRETERS] + [(c, tier) for c in countries])
    run.extra.update({
        "deviation_bound_completed": ("2 substitutions over W2 (bases distinct, letters) and "
                                      "1 edit over W" if tier == "thorough" else "1 edit over W"),
        "alphabet_size": len(alphabet.wide(tier == "thorough")),
        "fillers": bases.FILLERS if tier == "thorough" else ["distinct", "seeded"],
        "countries": len(countries),
    })
    run.assumptions += [
        "reference model R-IBAN (mc/ref/iban.py) + R-REG reading the tree's registry files",
        "texts more than the stated number of edits away from every base are not explored",
    ]
    return run.finish(replay)
