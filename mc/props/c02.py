"""C02 - IBAN check digits are computed correctly, uniquely and canonically."""
from __future__ import annotations

from .. import lib
from ..engine import bases, families, par, report
from ..ref import iban as ri
from ..ref import reg

PID = "C02"
RULE = ("per country x base BBAN: a residue-complete family (odometer over the class alphabets of "
        "the last positions, keeping one member per value of numeric(bban+country+'00') mod 97, "
        "all 97 values) ; for every member IBAN.from_bban(country, bban) and IBAN(country+dd+bban) "
        "for all 100 pairs dd. Oracle: from_bban yields the reference's digits (02..98), parses "
        "back as valid; exactly the reference pair is accepted. Plus 'special' conforming BBANs "
        "(dictionary tokens, near-tokens, runs of zeros / nines at every admitted offset): assembly, "
        "canonical pair, its neighbours and the three aliases. Non-trivial/distinct = distinct "
        "(country, dd, bban) texts other than the canonical one.")


def residue_family(country: str, base: str, want: int = 97, cap: int = 20000):
    """BBANs covering all residues mod 97, obtained by stepping the last positions through
    their class alphabets (rightmost fastest)."""
    c = reg.countries()[country]
    cl = bases.classes_of(c)
    alph = [reg.CLASS_CHARS[k] for k in cl]
    start = [alph[i].index(base[i]) for i in range(len(base))]
    seen, out = set(), []
    i = 0
    while len(seen) < want and i < cap:
        n, chars = i, list(base)
        p = len(base) - 1
        while n and p >= 0:
            a = alph[p]
            chars[p] = a[(start[p] + n % len(a)) % len(a)]
            n //= len(a)
            p -= 1
        b = "".join(chars)
        r = ri.residue(country, b)
        if r not in seen:
            seen.add(r)
            out.append(b)
        i += 1
    return out, len(seen)


def check_member(country: str, bban: str, between=None, via_object=False):
    """-> list of (signature, case, expected, observed) for one family member; and eval count"""
    bad = []
    ref = ri.check_digits(country, bban)
    kind, val = lib.outcome(lambda: str(lib.IBAN.from_bban(country, bban)))
    case = {"kind": "c02", "country": country, "bban": bban}
    if kind != "ok":
        bad.append(("from_bban-fails-on-conforming-bban", {**case, "dd": None}, "IBAN with digits " + ref,
                    (kind, val)))
    elif val != country + ref + bban:
        bad.append(("from_bban-wrong-digits", {**case, "dd": None}, country + ref + bban, val))
    # the same assembly asked for in other ways: non-validating, and from differently spelled strings
    for how, args, kw in (("allow_invalid", (country, bban), {"allow_invalid": True}),
                          ("lower-case", (country.lower(), bban.lower()), {}),
                          ("lower-case+allow_invalid", (country, bban.lower()), {"allow_invalid": True}),
                          ("printed+allow_invalid", (country, " ".join(bban[i:i + 4] for i in range(0, len(bban), 4)) + "\n"),
                           {"allow_invalid": True}),
                          ("validate_bban=False keyword", (country, bban), {"validate_bban": False})):
        k9, v9 = lib.outcome(lambda: str(lib.IBAN.from_bban(*args, **kw)))
        if how not in ("allow_invalid", "validate_bban=False keyword") and k9 == "lib":
            # a differently spelled BBAN string may be refused (the statement speaks of conforming
            # BBANs); but whatever IS assembled from it must carry the computed digits
            continue
        if (k9, v9) != ("ok", country + ref + bban):
            bad.append((f"from_bban-wrong [{how}]", {**case, "dd": None, "how": how}, country + ref + bban, (k9, v9)))
            break
    if via_object:
        # arguments that are str instances of another type: a plain subclass and a (str, Enum) member
        import enum

        class Text(str):
            pass
        for how, mk in (("str subclass", Text), ("(str, Enum) member", lambda v: enum.Enum("Code", {"V": v}, type=str).V)):
            k10, v10 = lib.outcome(lambda: str(lib.IBAN.from_bban(mk(country), mk(bban))))
            if (k10, v10) != ("ok", country + ref + bban):
                bad.append((f"from_bban-wrong [arguments given as {how}]", {**case, "dd": None, "argument_type": how},
                            country + ref + bban, (k10, v10)))
        # an application-defined subclass of IBAN judges like IBAN

        class CustomerIBAN(lib.IBAN):
            pass
        for dd in dict.fromkeys([ref, "00", f"{(int(ref) + 1) % 100:02d}"]):
            k11, _ = lib.outcome(CustomerIBAN, country + dd + bban)
            if (k11 == "ok") != (dd == ref):
                bad.append(("subclass-of-IBAN-judges-differently", {**case, "dd": dd, "subclass": True},
                            "accept" if dd == ref else "reject", k11))
    if not ("02" <= ref <= "98"):
        bad.append(("reference-digits-out-of-range", {**case, "dd": None}, "02..98", ref))
    canon = country + ref + bban
    for layout in (" " + canon, canon[:2] + " " + canon[2:], "\t" + canon[:3] + "\n" + canon[3:], canon[:1] + " " + canon[1:]):
        k6, v6 = lib.iban_parse(layout)
        if k6 != "ok":
            bad.append(("canonical-pair-rejected-in-another-layout", {**case, "dd": ref, "layout": layout},
                        "accept", (k6, v6)))
            break
    if between is not None:
        # right after refused calls: the canonical text and the assembly come FIRST (what a failed
        # call leaves behind is typically consumed by the very next call)
        between()
        k, v = lib.iban_parse(country + ref + bban)
        if k != "ok":
            bad.append(("canonical-pair-rejected-right-after-a-refused-call", {**case, "dd": ref, "after": "refused"},
                        "accept", (k, v)))
        between()
        k, v = lib.outcome(lambda: str(lib.IBAN.from_bban(country, bban)))
        if (k, v) != ("ok", country + ref + bban):
            bad.append(("from_bban-wrong-right-after-a-refused-call", {**case, "dd": None, "after": "refused"},
                        country + ref + bban, (k, v)))
        between()
    for d in range(100):
        dd = f"{d:02d}"
        k, v = lib.iban_parse(country + dd + bban)
        acc = k == "ok"
        if via_object and not acc:
            k5, v5 = lib.iban_parse(country + dd + bban, True)
            if k5 == "ok":
                bad.append(("wrong-pair-accepted-when-national-validation-is-requested",
                            {**case, "dd": dd, "national": True}, "reject", (k5, v5)))
        if via_object:
            # the validating constructor given an IBAN *object* (built with validation off)
            ko, obj = lib.outcome(lib.IBAN, country + dd + bban, allow_invalid=True)
            if ko == "ok":
                k2, v2 = lib.outcome(lambda: str(lib.IBAN(obj)))
                if (k2 == "ok") != acc:
                    bad.append(("constructor-given-an-IBAN-object-disagrees-with-text",
                                {**case, "dd": dd, "via_object": True}, "accept" if acc else "reject", (k2, v2)))
        if via_object or dd in ("00", "01", "99", ref):
            # the other ways of asking: is_valid and validate() of the unvalidated object, the
            # non-validating assembly followed by validate()
            ko, obj = lib.outcome(lib.IBAN, country + dd + bban, allow_invalid=True)
            if ko == "ok":
                k7, v7 = lib.outcome(lambda: obj.is_valid)
                k8, _ = lib.outcome(obj.validate)
                if (k7, v7) != ("ok", dd == ref) or (k8 == "ok") != (dd == ref):
                    bad.append(("is_valid-or-validate()-of-the-unvalidated-object-disagrees" +
                                ("-for-an-alias" if dd in ("00", "01", "99") and dd != ref else ""),
                                {**case, "dd": dd, "entry": "is_valid"}, dd == ref, ((k7, v7), k8)))
        if acc != (dd == ref):
            if acc:
                sig = ("alias-accepted" if dd in ("00", "01", "99") else "non-canonical-pair-accepted")
            else:
                sig = "canonical-pair-rejected"
            bad.append((sig, {**case, "dd": dd}, "accept" if dd == ref else "reject", (k, v)))
    return bad


def check_member_light(country: str, bban: str):
    """from_bban, the canonical pair, its two neighbours and the three aliases (7 parses)."""
    bad = []
    ref = ri.check_digits(country, bban)
    case = {"kind": "c02", "country": country, "bban": bban}
    kind, val = lib.outcome(lambda: str(lib.IBAN.from_bban(country, bban)))
    if kind != "ok":
        bad.append(("from_bban-fails-on-conforming-bban", {**case, "dd": None}, "IBAN with digits " + ref, (kind, val)))
    elif val != country + ref + bban:
        bad.append(("from_bban-wrong-digits", {**case, "dd": None}, country + ref + bban, val))
    n = int(ref)
    for dd in dict.fromkeys([ref, f"{(n + 1) % 100:02d}", f"{(n - 1) % 100:02d}", "00", "01", "99"]):
        k, v = lib.iban_parse(country + dd + bban)
        if (k == "ok") != (dd == ref):
            sig = ("canonical-pair-rejected" if dd == ref else
                   "alias-accepted" if dd in ("00", "01", "99") else "non-canonical-pair-accepted")
            bad.append((sig, {**case, "dd": dd}, "accept" if dd == ref else "reject", (k, v)))
    return bad


def runtime_shard(args):
    """Run-time update of the country table through registry.save (shared with C18): assembly,
    decomposition and generation follow the table in force, also for objects created earlier."""
    from . import c18
    from ..engine import sandbox
    part = par.Part()
    before = sandbox.deep_snapshot()
    part["evals"] += 40
    for i in range(40):
        part.seen.add(hash(("runtime", i)))
    for sig, exp, obs in c18.runtime_table_problems():
        part.violation(sig + " [run-time table update]", {"kind": "runtime-table"}, exp, obs)
    sandbox.assert_restored(before)
    part.stat("runtime_table_updates", 3)
    return part.done()


def shard(args):
    if args[0] == "runtime-table":
        return runtime_shard(args)
    if args[0] == "after-activity":
        return after_activity_shard(args)
    if args[0] in ("python -O", "python -W error", "python, C locale"):
        return optimised_shard(args)
    country, tier = args
    part = par.Part()
    c = reg.countries()[country]
    fillers = bases.FILLERS if tier == "thorough" else ["distinct", "seeded"]
    residues_total = 0
    for f in dict.fromkeys(fillers):
        base = bases.bban(c, f)
        fam, nres = residue_family(country, base)
        residues_total += nres
        sp = bases.self_prefixed(country)
        if sp and f == "distinct":
            fam = fam + [sp]  # a BBAN that itself starts like an IBAN of this country
        if nres < 97:
            part.stat("families_not_residue_complete")
        for bi, b in enumerate(fam):
            for sig, case, exp, obs in check_member(country, b, via_object=(bi % 8 == 0)):
                part.violation(sig, case, exp, obs)
            part["evals"] += 101
            for d in range(100):
                part.seen.add(hash((d, b)))
            part.stat("members")
        # the same BBAN texts assembled for every other country that admits them, in this very
        # process (anything remembered per BBAN text would be replayed for the wrong country)
        for other in bases.partners(country):
            oc = reg.countries()[other]
            shared = [b for b in fam if oc.matches(b)][: (97 if tier == "thorough" else 8)]
            for b in shared:
                # a BBAN *object* of this country handed to the assembly for the other country
                ko, src = lib.outcome(lib.IBAN, bases.iban_text(country, b))
                if ko == "ok":
                    k3, v3 = lib.outcome(lambda: str(lib.IBAN.from_bban(other, src.bban)))
                    want = bases.iban_text(other, b)
                    part["evals"] += 1
                    if (k3, v3) != ("ok", want):
                        part.violation("from_bban-with-a-BBAN-object-of-another-country-wrong",
                                       {"kind": "c02", "country": other, "bban": b, "dd": None,
                                        "object_of": country}, want, (k3, v3))
                for sig, case, exp, obs in check_member(other, b):
                    part.violation(sig + " [same BBAN text after another country]", case, exp, obs)
                for sig, case, exp, obs in check_member(country, b):
                    part.violation(sig + " [same BBAN text after another country]", case, exp, obs)
                part["evals"] += 202
                for d in range(100):
                    part.seen.add(hash((d, other, b)))
                part.stat("cross_country_members")
        if f == "distinct":
            # 'special' conforming BBANs: dictionary tokens, near-tokens, long runs of zeros / nines
            # at every offset the structure admits
            import itertools as _it
            for label, b, _ in _it.chain(families.special_bodies(c, base),
                                         families.small_field_bodies(c, base, dictionary_only=True)):
                part["evals"] += 7
                part.seen.add(hash(("special", b)))
                part.stat("special_members")
                for sig, case, exp, obs in check_member_light(country, b):
                    part.violation(sig + f" [{label.split(':')[0]} body]", case, exp, obs)
        part.sample({"country": country, "filler": f, "members": fam[:3],
                     "digits": [ri.check_digits(country, b) for b in fam[:3]]})
        part.stat("families")
    # the remaining fillers (all letters, all maximal / minimal characters, ...): the base itself, lightly
    for f in [x for x in bases.FILLERS if x not in fillers]:
        b = bases.bban(c, f)
        part["evals"] += 7
        part.seen.add(hash(("filler-base", f, b)))
        for sig, case, exp, obs in check_member_light(country, b):
            part.violation(sig + f" [{f} filler]", case, exp, obs)
    part.stat("countries")
    part.stat("residue_values_covered", residues_total)
    return part.done()


def after_activity_shard(args):
    """One process: the API prelude, then - for every country - failing assembly calls interleaved
    with the 100-pair check of three family members."""
    from ..engine import activity
    _, tier = args
    part = par.Part()
    part.stat("prelude_calls", activity.exercise_api(report.SEED))
    for country in sorted(reg.countries()):
        c = reg.countries()[country]
        fam, _ = residue_family(country, bases.bban(c, "distinct"), want=3 if tier == "quick" else 12)
        for b in fam:
            # refused calls between the assembly and the 100-pair check: too short, illegal
            # character, unknown country
            def refused(b=b):
                lib.outcome(lib.IBAN.from_bban, country, b[:-1])
                lib.outcome(lib.IBAN.from_bban, country, b[:-1] + "*")
                lib.outcome(lib.IBAN.from_bban, "XX", b)
                lib.outcome(lib.IBAN.generate, country, "1", "1-")

            for sig, case, exp, obs in check_member(country, b, between=refused):
                part.violation(sig + " [after refused calls / API activity]", case, exp, obs)
            part["evals"] += 104
            for d in range(100):
                part.seen.add(hash(("after", d, country, b)))
    part.stat("after_activity_shards")
    return part.done()


def optimised_child(arg):
    """Runs inside a brand-new interpreter started with other options (``python -O``, ``python -W
    error``, a process with the C locale): three family members per country, full 100-pair check."""
    tier, label = arg if isinstance(arg, tuple) else (arg, "python -O")
    part = par.Part()
    for country in sorted(reg.countries()):
        c = reg.countries()[country]
        fam, _ = residue_family(country, bases.bban(c, "distinct"), want=3)
        for b in fam:
            for sig, case, exp, obs in check_member(country, b):
                part.violation(sig + f" [{label}]", dict(case, interpreter=label), exp, obs)
            part["evals"] += 101
            for d in range(100):
                part.seen.add(hash((label, d, country, b)))
    part.stat("optimised_interpreter_runs")
    return part.done()


def optimised_shard(args):
    from . import c01
    label = args[0]
    try:
        part = par.in_interpreter(c01.INTERPRETERS[label], "mc.props.c02", "optimised_child", (args[1], label),
                                  env=c01.INTERPRETER_ENV.get(label))
    except report.HarnessError as e:
        if "/schwifty/" not in str(e):
            raise
        part = par.Part()
        part["evals"] += 1
        part.violation(f"library-unusable [{label}]", {"kind": "c02", "country": "DE", "bban": "370400440532013000",
                       "dd": None, "interpreter": label}, "IBAN assembled", str(e)[-400:])
        return part.done()
    part["foreign"] = part.get("foreign") or set()
    return part


def replay(case: dict) -> dict:
    if case.get("interpreter"):
        part = optimised_shard((case["interpreter"], "quick"))
        hit = [v for v in part["violations"] if v["case"].get("bban") == case.get("bban") and v["case"].get("dd") == case.get("dd")]
        return {"ok": not hit, "observed": hit[0]["observed"] if hit else None, "interpreter": case["interpreter"]}
    if case.get("kind") == "runtime-table":
        from . import c18
        probs = c18.runtime_table_problems()
        return {"ok": not probs, "observed": [(p[0], p[2]) for p in probs]}
    if case.get("object_of"):
        ko, src = lib.outcome(lib.IBAN, bases.iban_text(case["object_of"], case["bban"]))
        k3, v3 = lib.outcome(lambda: str(lib.IBAN.from_bban(case["country"], src.bban)))
        want = bases.iban_text(case["country"], case["bban"])
        return {"ok": (k3, v3) == ("ok", want), "expected": want, "observed": (k3, v3)}
    if case.get("layout"):
        k, v = lib.iban_parse(case["layout"])
        return {"ok": k == "ok", "expected": "accept", "observed": (k, v)}
    if case.get("national"):
        k, v = lib.iban_parse(case["country"] + case["dd"] + case["bban"], True)
        return {"ok": k != "ok", "expected": "reject", "observed": (k, v)}
    every_way = bool(case.get("via_object") or case.get("argument_type") or case.get("subclass") or case.get("entry")
                     or case.get("how"))
    bad = check_member(case["country"], case["bban"], via_object=every_way)
    for sig, cs, exp, obs in bad:
        if cs.get("dd") == case.get("dd"):
            return {"ok": False, "signature": sig, "expected": exp, "observed": obs}
    return {"ok": not bad, "observed": [b[0] for b in bad]}


def main(tier: str) -> int:
    run = report.Run(PID, tier, "exploration", RULE)
    countries = sorted(reg.countries())
    par.run_shards(run, shard, [("runtime-table", tier), ("after-activity", tier), ("python -O", tier), ("python -W error", tier),
                                ("python, C locale", tier)] + [(c, tier) for c in countries])
    fams = run.stats.get("families", 0)
    run.exhaustive = (run.stats.get("families_not_residue_complete", 0) == 0)
    run.extra.update({
        "countries": len(countries),
        "residue_x_pair_grid": f"{run.stats.get('residue_values_covered', 0)} residue values over {fams} "
                               f"families x 100 pairs each (97 per family = complete)",
        "exhaustive_note": "exhaustive refers to the 97 residues x 100 check-digit pairs grid per "
                           "country and base, on which the verdict can only depend",
    })
    run.assumptions += ["reference mod-97 arithmetic mc/ref/iban.py (digit-string long division)"]
    return run.finish(replay)
