"""C03 - every single typing error in a valid IBAN is detected."""
from __future__ import annotations

from .. import lib
from ..engine import bases, families, par, report
from ..ref import iban as ri
from ..ref import reg
from .c02 import residue_family

PID = "C03"
RULE = ("per country x right-context filler: for every position p>=2 and every ordered same-kind "
        "pair (x,y), x!=y admitted at p (90 digit pairs, 650 letter pairs), a reference-valid IBAN "
        "carrying x at p (positions 2,3: a member of the residue-complete family with that check "
        "digit) with x replaced by y; for every adjacent pair (p,p+1) and every same-kind (x,y), "
        "x!=y, a reference-valid IBAN carrying xy there, swapped. Oracle: the mutated text is "
        "rejected. Plus, per filler, 'special' BBANs (dictionary tokens such as XXXX / EUR / NULL, "
        "near-tokens, runs of 8-18 zeros or nines, eight zeros + digit, at every admitted offset) with "
        "the typos inside and next to the touched region. The unmutated text must be accepted first (otherwise counted as skipped). "
        "Non-trivial/distinct = distinct mutated texts.")
DIG, UP = "0123456789", "ABCDEFGHIJKLMNOPQRSTUVWXYZ"


def kinds(cls: str):
    return {"n": [DIG], "a": [UP], "c": [DIG, UP], "e": []}[cls]


def with_check_digits(country, cl, body, want: dict):
    """Vary positions of ``body`` not in ``frozen`` until the reference check digits satisfy
    ``want`` ({0: ch} and/or {1: ch}); returns (dd, body) or None."""
    frozen = want.get("frozen", set())
    free = [i for i in range(len(body) - 1, -1, -1) if i not in frozen]
    alph = [reg.CLASS_CHARS[k] for k in cl]
    for i in range(5000):
        chars, n = list(body), i
        for p in free:
            if not n:
                break
            a = alph[p]
            chars[p] = a[(a.index(body[p]) + n % len(a)) % len(a)]
            n //= len(a)
        b = "".join(chars)
        dd = ri.check_digits(country, b)
        if all(dd[k] == v for k, v in want.items() if k in (0, 1)):
            return dd, b
    return None


def judge_mutation(valid: str, mutated: str, via_object: bool = False, national: bool = False):
    k0, _ = lib.iban_parse(valid)
    if k0 != "ok":
        return "skipped", None
    k, v = lib.iban_parse(mutated)
    if k != "ok" and national:
        k, v = lib.iban_parse(mutated, True)
    if k != "ok" and via_object:
        ko, obj = lib.outcome(lib.IBAN, mutated, allow_invalid=True)
        if ko == "ok":
            k, v = lib.outcome(lambda: str(lib.IBAN(obj)))
    return ("bad" if k == "ok" else "good"), (k, v)


def runtime_shard(args):
    """Run-time update of the country table through registry.save (shared with C18): a country cloned
    under a new code is judged by ITS code."""
    from . import c18
    from ..engine import sandbox
    part = par.Part()
    before = sandbox.deep_snapshot()
    part["evals"] += 40
    for i in range(40):
        part.seen.add(hash(("runtime", i)))
    for sig, exp, obs in c18.runtime_table_problems():
        part.violation(sig + " [run-time table update]", {"kind": "runtime-table"}, exp, obs)
    sandbox.assert_restored(before)
    part.stat("runtime_table_updates", 3)
    return part.done()


def shard(args):
    if args[0] == "runtime-table":
        return runtime_shard(args)
    if args[0] == "after-activity":
        return after_activity_shard(args)
    if args[0] == "python -O":
        return par.in_interpreter(["-O"], "mc.props.c03", "optimised_child", args[1])
    country, tier = args
    part = par.Part()
    c = reg.countries()[country]
    cl = bases.classes_of(c)
    fillers = ["digits", "letters"] + (["distinct", "max", "seeded"] if tier == "thorough" else [])
    accepted_cache: dict[str, bool] = {}

    def accepted(text):
        if text not in accepted_cache:
            accepted_cache[text] = lib.iban_parse(text)[0] == "ok"
            part["evals"] += 1
        return accepted_cache[text]

    lib_digits: dict[str, str | None] = {}

    def lib_valid(valid):
        """The reference-valid text if the library accepts it; otherwise the library's own spelling
        of a valid IBAN for the same BBAN (the guarantee is about IBANs the library calls valid)."""
        if accepted(valid):
            return valid
        body = valid[4:]
        if body not in lib_digits:
            k, v = lib.outcome(lambda: str(lib.IBAN.from_bban(country, body)))
            part["evals"] += 1
            lib_digits[body] = v if k == "ok" else None
        return lib_digits[body]

    def try_case(kind_, valid, mutated, how):
        own = lib_valid(valid)
        if own is None:
            part.stat("skipped_base_not_accepted")
            return
        if own != valid:
            # same edit applied to the library's spelling (edits inside the check digits are
            # re-derived for its digits)
            part.stat("library_check_digits_used")
            if mutated[4:] == valid[4:]:
                return
            mutated = own[:4] + mutated[4:]
            valid = own
        part.count(mutated)
        pc = None
        if partner_pre is not None and mutated[4:] != valid[4:]:
            # sequence form: the mistyped BBAN text goes through the library first as the *valid*
            # IBAN of a partner country (same BBAN length, structure admits the text)
            pc = next((p for p in partner_pre if reg.countries()[p].matches(mutated[4:])), None)
            if pc is not None:
                lib.iban_parse(pc + ri.check_digits(pc, mutated[4:]) + mutated[4:])
                part["evals"] += 1
                part.stat("after_partner_country")
        k, v = lib.iban_parse(mutated)
        part.stat(kind_)
        if k != "ok" and with_national:
            # requesting national validation on top can only reject more, never rescue a typo
            k, v = lib.iban_parse(mutated, True)
            part["evals"] += 1
            if k == "ok":
                part.violation(f"{kind_}-undetected-with-national-validation",
                               {"kind": "c03", "valid": valid, "mutated": mutated, "how": how,
                                "national": True}, "reject", (k, v))
                return
        if k != "ok" and via_object:
            # the validating constructor given an IBAN object built with validation off
            ko, obj = lib.outcome(lib.IBAN, mutated, allow_invalid=True)
            if ko == "ok":
                k, v = lib.outcome(lambda: str(lib.IBAN(obj)))
                part["evals"] += 1
                if k == "ok":
                    part.violation(f"{kind_}-undetected-when-given-as-an-IBAN-object",
                                   {"kind": "c03", "valid": valid, "mutated": mutated, "how": how,
                                    "via_object": True}, "reject", (k, v))
                    return
        extra_forms[0] += 1
        if k != "ok" and via_object and extra_forms[0] % 8 == 0:
            # (every eighth case) other ways of handing the mistyped text over: the documented flags given positionally
            # (allow_invalid=False, validate_bban=True), and a copy / a pickle of the unvalidated object
            # asked whether it is valid
            import copy as _copy
            import pickle as _pickle
            part["evals"] += 3
            class CustomerIBAN(lib.IBAN):   # an application-defined subclass judges like IBAN
                pass
            k3, v3 = lib.outcome(lambda: str(CustomerIBAN(mutated)))
            if k3 == "ok":
                part.violation(f"{kind_}-undetected-by-a-subclass-of-IBAN",
                               {"kind": "c03", "valid": valid, "mutated": mutated, "how": how, "subclass": True},
                               "reject", (k3, v3))
                return
            k4, v4 = lib.outcome(lambda: str(lib.IBAN(mutated, False, True)))
            if k4 == "ok":
                part.violation(f"{kind_}-undetected-with-positional-flags",
                               {"kind": "c03", "valid": valid, "mutated": mutated, "how": how,
                                "positional_flags": True}, "reject", (k4, v4))
                return
            ko, obj = lib.outcome(lib.IBAN, mutated, allow_invalid=True)
            if ko == "ok":
                for way, f in (("copy.copy", _copy.copy), ("pickle", lambda o: _pickle.loads(_pickle.dumps(o)))):
                    kc, vc = lib.outcome(lambda: (lambda c_: (str(c_), c_.is_valid))(f(obj)))
                    if kc == "ok" and (vc[1] is True or vc[0] != mutated):
                        part.violation(f"{kind_}-undetected-on-a-{way}-of-the-unvalidated-object",
                                       {"kind": "c03", "valid": valid, "mutated": mutated, "how": how,
                                        "copied": way}, (mutated, False), vc)
                        return
        if k == "ok":
            if pc is None:
                part.violation(f"{kind_}-undetected", {"kind": "c03", "valid": valid, "mutated": mutated,
                                                        "how": how}, "reject", (k, v))
            else:
                part.violation(f"{kind_}-undetected-after-same-BBAN-text-in-partner-country",
                               {"kind": "c03seq", "partner": pc, "valid": valid, "mutated": mutated,
                                "how": how}, "reject", (k, v))

    partner_pre = None
    via_object = False
    with_national = False
    extra_forms = [0]

    for f in dict.fromkeys(fillers):
        base = bases.bban(c, f)
        L = len(base)
        # partner sequences for one filler (the collision needs equal check digits: ~1 typo in 97)
        partner_pre = bases.partners(country)[:3] if f == fillers[0] else None
        via_object = f == fillers[-1]
        with_national = f == fillers[-1]
        # ---- substitutions and transpositions inside the BBAN
        for p in range(L):
            for alpha in kinds(cl[p]):
                for x in alpha:
                    body = base[:p] + x + base[p + 1:]
                    dd = ri.check_digits(country, body)
                    valid = country + dd + body
                    for y in alpha:
                        if y != x:
                            try_case("substitution", valid, country + dd + body[:p] + y + body[p + 1:],
                                     f"pos {p + 4}: {x}->{y} filler {f}")
            if p + 1 < L:
                for alpha in kinds(cl[p]):
                    if alpha not in kinds(cl[p + 1]):
                        continue
                    for x in alpha:
                        for y in alpha:
                            if x == y:
                                continue
                            body = base[:p] + x + y + base[p + 2:]
                            dd = ri.check_digits(country, body)
                            try_case("transposition", country + dd + body,
                                     country + dd + base[:p] + y + x + base[p + 2:],
                                     f"pos {p + 4},{p + 5}: {x}{y}->{y}{x} filler {f}")
        # ---- check-digit positions 2 and 3
        fam, _ = residue_family(country, base)
        by_dd = {ri.check_digits(country, b): b for b in fam}
        for dd, b in by_dd.items():
            valid = country + dd + b
            for k in (0, 1):
                for y in DIG:
                    if y != dd[k]:
                        m = dd[:k] + y + dd[k + 1:]
                        try_case("substitution", valid, country + m + b,
                                 f"pos {2 + k}: {dd[k]}->{y} filler {f}")
            if dd[0] != dd[1]:
                try_case("transposition", valid, country + dd[1] + dd[0] + b,
                         f"pos 2,3: {dd}->{dd[::-1]} filler {f}")
        # ---- transposition across positions 3 and 4 (second check digit, first BBAN character)
        if DIG in kinds(cl[0]):
            for x in DIG:
                for y in DIG:
                    if x == y:
                        continue
                    got = with_check_digits(country, cl, y + base[1:], {1: x, "frozen": {0}})
                    if got is None:
                        part.stat("no_base_for_3_4_transposition")
                        continue
                    dd, b = got
                    try_case("transposition", country + dd + b, country + dd[0] + y + x + b[1:],
                             f"pos 3,4: {x}{y}->{y}{x} filler {f}")
        # ---- special bodies: dictionary tokens, near-tokens, long runs of zeros / nines at every
        # offset the structure admits; typos inside and next to the touched region (successor,
        # predecessor and the region's own filler character per position; adjacent transpositions)
        partner_pre, via_object, with_national = None, False, False
        import itertools as _it
        field_bodies = families.small_field_bodies(c, base, limit=20000,
                                                   dictionary_only=(tier == "quick"))
        for label, body, (lo, hi) in _it.chain(families.special_bodies(c, base), field_bodies):
            dd = ri.check_digits(country, body)
            valid = country + dd + body
            part.stat("special_bodies")
            for q in range(max(0, lo - 1), min(L, hi + 1)):
                x = body[q]
                for alpha in kinds(cl[q]):
                    if x not in alpha:
                        continue
                    i = alpha.index(x)
                    if label.startswith("field:") and lo <= q < hi:
                        alts = set(alpha) - {x}  # inside a small field: every same-kind character
                    else:
                        alts = {alpha[(i + 1) % len(alpha)], alpha[i - 1],
                                body[lo] if body[lo] in alpha else alpha[0], alpha[0]} - {x}
                    for y in sorted(alts):
                        try_case("substitution", valid, country + dd + body[:q] + y + body[q + 1:],
                                 f"pos {q + 4}: {x}->{y} in {label} body")
                if q + 1 < L and body[q] != body[q + 1] and any(
                        body[q] in a and body[q + 1] in a for a in kinds(cl[q]) if a in kinds(cl[q + 1])):
                    try_case("transposition", valid,
                             country + dd + body[:q] + body[q + 1] + body[q] + body[q + 2:],
                             f"pos {q + 4},{q + 5} swapped in {label} body")
        part.sample({"country": country, "filler": f, "valid": country + ri.check_digits(country, base) + base,
                     "example_mutation": country + ri.check_digits(country, base) + base[:-1]
                     + ("1" if base[-1] != "1" else "2")})
    part.stat("countries")
    return part.done()


def after_activity_shard(args):
    """One process: the API prelude, then for every country a reduced error enumeration (every
    position, successor character, adjacent swaps), each preceded now and then by a refused
    assembly call."""
    from ..engine import activity
    _, tier = args
    part = par.Part()
    part.stat("prelude_calls", activity.exercise_api(report.SEED))
    for country in sorted(reg.countries()):
        c = reg.countries()[country]
        cl = bases.classes_of(c)
        body = bases.bban(c, "distinct")
        valid = bases.iban_text(country, body)
        if lib.iban_parse(valid)[0] != "ok":
            part.stat("skipped_base_not_accepted")
            continue
        lib.outcome(lib.IBAN.from_bban, country, body[:-1])
        lib.outcome(lib.IBAN.generate, country, "1", "1-")
        for p in range(2, len(valid)):
            x = valid[p]
            alpha = DIG if x in DIG else UP
            for y in (alpha[(alpha.index(x) + 1) % len(alpha)], alpha[(alpha.index(x) + 7) % len(alpha)]):
                if y == x or (p >= 4 and y not in reg.CLASS_CHARS[cl[p - 4]]):
                    continue
                m = valid[:p] + y + valid[p + 1:]
                part.count(("after", m))
                k, v = lib.iban_parse(m)
                if k == "ok":
                    part.violation("substitution-undetected [after API activity]",
                                   {"kind": "c03", "valid": valid, "mutated": m, "how": "after the API prelude"},
                                   "reject", (k, v))
            if p + 1 < len(valid):
                a, b = valid[p], valid[p + 1]
                if a != b and (a in DIG) == (b in DIG):
                    m = valid[:p] + b + a + valid[p + 2:]
                    if p < 3 or c.matches(m[4:]):
                        part.count(("after", m))
                        k, v = lib.iban_parse(m)
                        if k == "ok":
                            part.violation("transposition-undetected [after API activity]",
                                           {"kind": "c03", "valid": valid, "mutated": m,
                                            "how": "after the API prelude"}, "reject", (k, v))
    part.stat("after_activity_shards")
    return part.done()


def optimised_child(tier):
    """Runs inside ``python -O``: for every country every position, successor substitution."""
    part = par.Part()
    for country in sorted(reg.countries()):
        c = reg.countries()[country]
        cl = bases.classes_of(c)
        for f in ("distinct", "letters"):
            body = bases.bban(c, f)
            valid = bases.iban_text(country, body)
            if lib.iban_parse(valid)[0] != "ok":
                continue
            for p in range(2, len(valid)):
                x = valid[p]
                alpha = DIG if x in DIG else UP
                y = alpha[(alpha.index(x) + 1) % len(alpha)]
                if p >= 4 and y not in reg.CLASS_CHARS[cl[p - 4]]:
                    continue
                m = valid[:p] + y + valid[p + 1:]
                part.count(("-O", m))
                k, v = lib.iban_parse(m)
                if k == "ok":
                    part.violation("substitution-undetected [python -O]",
                                   {"kind": "c03", "valid": valid, "mutated": m, "how": "python -O"},
                                   "reject", (k, v))
    part.stat("optimised_interpreter_runs")
    return part.done()


def replay(case: dict) -> dict:
    if case.get("kind") == "runtime-table":
        from . import c18
        probs = c18.runtime_table_problems()
        return {"ok": not probs, "observed": [(p[0], p[2]) for p in probs]}
    if case.get("how") == "python -O":
        part = par.in_interpreter(["-O"], "mc.props.c03", "optimised_child", "quick")
        hit = [v for v in part["violations"] if v["case"]["mutated"] == case["mutated"]]
        return {"ok": not hit, "observed": hit[0]["observed"] if hit else None, "interpreter": "python -O"}
    if case.get("kind") == "c03seq":
        pc, m = case["partner"], case["mutated"]
        lib.iban_parse(pc + ri.check_digits(pc, m[4:]) + m[4:])
    if case.get("subclass"):
        class CustomerIBAN(lib.IBAN):
            pass
        k3, v3 = lib.outcome(lambda: str(CustomerIBAN(case["mutated"])))
        return {"ok": k3 != "ok", "observed": (k3, v3), "expected": "reject"}
    if case.get("positional_flags"):
        k4, v4 = lib.outcome(lambda: str(lib.IBAN(case["mutated"], False, True)))
        return {"ok": k4 != "ok", "observed": (k4, v4), "expected": "reject"}
    if case.get("copied"):
        import copy as _copy
        import pickle as _pickle
        f = _copy.copy if case["copied"] == "copy.copy" else (lambda o: _pickle.loads(_pickle.dumps(o)))
        ko, obj = lib.outcome(lib.IBAN, case["mutated"], allow_invalid=True)
        kc, vc = lib.outcome(lambda: (lambda c_: (str(c_), c_.is_valid))(f(obj)))
        return {"ok": not (kc == "ok" and (vc[1] is True or vc[0] != case["mutated"])), "observed": (kc, vc)}
    verdict, obs = judge_mutation(case["valid"], case["mutated"], bool(case.get("via_object")),
                                  bool(case.get("national")))
    return {"ok": verdict != "bad", "observed": obs, "expected": "reject"}


def main(tier: str) -> int:
    run = report.Run(PID, tier, "exploration", RULE)
    countries = sorted(reg.countries())
    par.run_shards(run, shard, [("runtime-table", tier), ("after-activity", tier), ("python -O", tier)] + [(c, tier) for c in countries])
    run.extra.update({"countries": len(countries), "error_bound": "one substitution or one adjacent "
                      "transposition per text", "fillers": "digits, letters" + (
                          ", distinct, max, seeded" if tier == "thorough" else "")})
    run.assumptions += ["reference check digits mc/ref/iban.py build the valid side"]
    return run.finish(replay)
