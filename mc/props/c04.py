"""C04 - BIC acceptance is exactly the ISO 9362 structure with a known country code."""
from __future__ import annotations

from .. import lib
from ..engine import alphabet, families, par, report
from ..engine.report import SEED
from ..ref import bic as rb
from ..ref import reg

PID = "C04"
RULE = ("base BICs (8 and 11 characters; min / max / distinct fillers, digits in the party prefix, "
        "registry BICs, one seeded) x {every position x every character of W substituted / inserted, "
        "every position deleted, every prefix, extension to 14 by 0^n / A^n, country field replaced "
        "by all 1296 alphanumeric pairs (includes the 676 letter pairs) and W2 pairs, one character in "
        "front and one behind at once (all pairs of 31 quote / bracket / separator characters)}; thorough adds "
        "all pairs of positions x W2 x W2 and positions 9-11 x W x W2. Each text through BIC(t), "
        "BIC(t, enforce_swift_compliance=True), BIC(t, allow_invalid=True).validate(True) and "
        ".is_valid; verdicts compared with the reference grammar R-BIC. distinct = distinct texts "
        "other than the bases.")

BASES8 = ["AAAADEAA", "ZZZZZWZZ", "ABCDUSE1", "1A2BFR3C", "0000GB00", "GENODEM1", "MARKDEF1",
          "A1B2NL9Z"]
TAILS = ["AAA", "ZZZ", "XYZ", "123", "GLS", "100", "XXX", "0A9"]


def bases():
    import random
    rnd = random.Random(f"{SEED}:bic")
    cc = sorted(reg.iso_countries())
    seeded = ("".join(rnd.choice(alphabet.UPPER) for _ in range(4)) + rnd.choice(cc)
              + "".join(rnd.choice(alphabet.ALNUM) for _ in range(2)))
    out = []
    for i, b in enumerate(BASES8 + [seeded]):
        out.append(b)
        out.append(b + TAILS[i % len(TAILS)])
    out.append(seeded + "".join(rnd.choice(alphabet.ALNUM) for _ in range(3)))
    return list(dict.fromkeys(out))


def entry_points(text: str):
    """-> dict name -> bool accepted (foreign exceptions count as not accepted here; C05 owns them)"""
    res = {}
    res["BIC(t)"] = lib.bic_parse(text, False)[0] == "ok"
    res["BIC(t,strict)"] = lib.bic_parse(text, True)[0] == "ok"
    k, obj = lib.outcome(lib.BIC, text, allow_invalid=True)
    if k == "ok":
        res["validate(True)"] = lib.outcome(obj.validate, True)[0] == "ok"
        k2, v2 = lib.outcome(lambda: obj.is_valid)
        res["is_valid"] = (k2 == "ok" and v2 is True)
    else:
        res["validate(True)"] = res["is_valid"] = False
    class CustomerBIC(lib.BIC):   # an application-defined subclass judges like BIC
        pass
    res["subclass(t)"] = lib.outcome(CustomerBIC, text)[0] == "ok"
    # an object built in strict mode without validation, then asked in BOTH modes (what was asked
    # for at construction must not stick to the object), also through a copy
    k, obj = lib.outcome(lib.BIC, text, allow_invalid=True, enforce_swift_compliance=True)
    if k == "ok":
        import copy as _copy
        res["strict-built.validate(False)"] = lib.outcome(obj.validate, False)[0] == "ok"
        res["strict-built.validate(True)"] = lib.outcome(obj.validate, True)[0] == "ok"
        res["strict-built.validate(False) again"] = lib.outcome(obj.validate, enforce_swift_compliance=False)[0] == "ok"
        res["copy-of-strict-built.validate()"] = lib.outcome(_copy.deepcopy(obj).validate)[0] == "ok"
    else:
        for n in ("strict-built.validate(False)", "strict-built.validate(True)", "strict-built.validate(False) again",
                  "copy-of-strict-built.validate()"):
            res[n] = False
    return res


def judge(text: str):
    got = entry_points(text)
    exp = {"BIC(t)": rb.accept(text, False), "BIC(t,strict)": rb.accept(text, True)}
    exp["validate(True)"] = exp["BIC(t,strict)"]
    exp["is_valid"] = exp["BIC(t)"]
    exp["subclass(t)"] = exp["BIC(t)"]
    exp["strict-built.validate(False)"] = exp["strict-built.validate(False) again"] = exp["BIC(t)"]
    exp["copy-of-strict-built.validate()"] = exp["BIC(t)"]
    exp["strict-built.validate(True)"] = exp["BIC(t,strict)"]
    bad = [n for n in got if got[n] != exp[n]]
    if not bad:
        return True, None, None, None
    n = bad[0]
    sig = f"{n}:" + ("accepts-but-reference-rejects" if got[n] else "rejects-but-reference-accepts")
    return False, sig, exp, got


def gen(base: str, tier: str, W):
    yield from families.single_edits(base, W)
    for n in range(len(base)):
        yield ("prefix", base[:n])
    for pad in "0A":
        for extra in range(1, 15 - len(base)):
            yield ("extended", base + pad * extra)
    for a in alphabet.ALNUM:
        for b in alphabet.ALNUM:
            yield ("country-field", base[:4] + a + b + base[6:])
    for a in alphabet.W2:
        for b in alphabet.W2:
            yield ("country-field-w2", base[:4] + a + b + base[6:])
    yield ("all-lower", base.lower())
    yield from families.token_overlays(base)
    yield from families.wrapped(base)
    if tier == "thorough":
        yield from families.double_subst(base)
        if len(base) == 11:
            for p in (8, 9, 10):
                for q in range(11):
                    if q == p:
                        continue
                    for w in W:
                        for v in alphabet.W2:
                            t = list(base)
                            t[p], t[q] = w, v
                            yield ("tail-pair", "".join(t))


def shard(args):
    if args[0] == "after-activity":
        return after_activity_shard(args)
    if args[0] == "registry":
        return registry_shard(args)
    base, tier = args
    part = par.Part()
    W = alphabet.wide(thorough=(tier == "thorough"))
    ok, sig, exp, obs = judge(base)
    part.count(base, nontrivial=False)
    if not ok or not rb.accept(base):
        part.violation("base:" + str(sig), {"kind": "bic_text", "text": base, "how": "base"}, exp, obs)
    examples = {}
    for fam, text in gen(base, tier, W):
        part["evals"] += 8
        if text != base:
            part.foreign.add(text)
        ok, sig, exp, obs = judge(text)
        part.stat("family:" + fam.split(":")[0])
        if len(examples) < 5 and fam not in examples:
            examples[fam] = text
        if not ok:
            part.violation(f"{sig} [{fam}]", {"kind": "bic_text", "text": text,
                                              "how": f"{fam} from base {base}"}, exp, obs)
    part.sample({"base": base, "examples": examples})
    part.stat("bases")
    return part.done()


def registry_shard(args):
    """Every BIC text the bundled bank registry carries (and its 8-character stem / XXX form):
    acceptance must follow the grammar and the ISO country list, whatever the registry says."""
    from ..ref import lookup
    _, tier = args
    part = par.Part()
    seen = set()
    for b in sorted(lookup.by_bic()):
        for text in (b, b[:8], b[:8] + "XXX", b.lower()):
            if text in seen:
                continue
            seen.add(text)
            part["evals"] += 4
            part.foreign.add("reg:" + text)
            ok, sig, exp, obs = judge(text)
            if not ok:
                part.violation(f"{sig} [registry BIC]", {"kind": "bic_text", "text": text,
                                                        "how": f"BIC text of the bank registry ({b})"}, exp, obs)
    part.stat("registry_bic_texts", len(seen))
    return part.done()


def after_activity_shard(args):
    """One process: the API prelude (which reads .country, .bic, ... of IBANs of every country of
    the table, Kosovo included), then the country-field family and single edits of two bases."""
    from ..engine import activity
    _, tier = args
    part = par.Part()
    part.stat("prelude_calls", activity.exercise_api(report.SEED))
    small = ["0", "A", "a", "-", " ", "٣", "_"]
    for base in ("GENODEM1", "MARKDEF1100"):
        for fam, text in gen(base, "quick", small):
            part["evals"] += 4
            part.foreign.add("after:" + text)
            ok, sig, exp, obs = judge(text)
            if not ok:
                part.violation(f"{sig} [{fam.split(':')[0]}, after API activity]",
                               {"kind": "bic_text", "text": text, "how": f"{fam} from base {base}, after "
                                "the API prelude"}, exp, obs)
    part.stat("after_activity_shards")
    return part.done()


def replay(case: dict) -> dict:
    ok, sig, exp, obs = judge(case["text"])
    return {"ok": ok, "signature": sig, "expected": exp, "observed": obs}


def main(tier: str) -> int:
    run = report.Run(PID, tier, "exploration", RULE)
    bs = bases()
    par.run_shards(run, shard, [("after-activity", tier), ("registry", tier)] + [(b, tier) for b in bs])
    run.extra.update({"bases": bs, "alphabet_size": len(alphabet.wide(tier == "thorough")),
                      "entry_points_per_text": 8,
                      "iso_country_codes": len(reg.iso_countries()),
                      "deviation_bound_completed": "1 edit over W" + (
                          "; 2 substitutions over W2; tail position x W with one more over W2"
                          if tier == "thorough" else "")})
    run.assumptions += ["reference grammar mc/ref/bic.py; ISO 3166 alpha-2 set read from pycountry's "
                        "iso3166-1.json data file"]
    return run.finish(replay)
