"""C05 - validation is total and its errors name a defect that is really present."""
from __future__ import annotations

from .. import lib
from ..engine import alphabet, bases, families, par, report
from ..ref import bic as rb
from ..ref import iban as ri
from ..ref import lookup, nat, reg
from . import c04

PID = "C05"
RULE = ("the C01 deviation families (per country x base: every position x W substituted/inserted, "
        "deletions, every length, every two-character prefix, all check pairs; bases additionally "
        "include a nationally valid BBAN for countries with a national rule) through IBAN(t), "
        "IBAN(t, validate_bban=True), IBAN(t, allow_invalid=True) then .validate(), .validate(True), "
        ".is_valid; the C04 families through BIC(t), BIC(t, strict), .validate(), .validate(True), "
        ".is_valid. Oracle: only SchwiftyException subclasses escape; is_valid never raises; "
        "constructor succeeds <=> is_valid <=> validate() returns; a raised class names a defect "
        "present per the reference (country / length / structure / checksum / national). "
        "distinct = distinct texts other than the bases.")

IBAN_CLASS_DEFECT = {
    "InvalidCountryCode": "country", "InvalidLength": "length",
    "InvalidStructure": "structure", "InvalidChecksumDigits": "checksum",
}
NATIONAL_CLASSES = {"InvalidBBANChecksum", "InvalidAccountCode", "InvalidBankCode",
                    "InvalidBranchCode"}


def national_defect_present(text: str, defects: set[str]):
    """True / False / None(abstain).  Only evaluable when the BBAN conforms to the structure."""
    if defects & {"country", "length", "structure"}:
        return False
    t = ri.normalise(text)
    v = lookup.national_verdict(t[:2], t[4:])
    if v is None:
        return None
    return v is False


def iban_points(text: str):
    """Run all IBAN entry points; -> dict name -> ('ok', value) | ('lib', cls) | ('foreign', cls)"""
    r = {}
    r["IBAN(t)"] = lib.iban_parse(text)
    r["IBAN(t,nat)"] = lib.iban_parse(text, True)
    k, obj = lib.outcome(lib.IBAN, text, allow_invalid=True)
    if k != "ok":
        r["IBAN(t,allow_invalid)"] = (k, obj)
        return r
    r["validate()"] = lib.outcome(obj.validate)
    r["validate(True)"] = lib.outcome(obj.validate, True)
    r["is_valid"] = lib.outcome(lambda: obj.is_valid)
    k2, v2 = lib.outcome(lambda: str(lib.IBAN(obj)))  # validating constructor given the object
    r["IBAN(obj)"] = (k2, v2)
    return r


def judge_iban(text: str):
    r = iban_points(text)
    defects = ri.defects(text)
    problems = []
    for name, (k, v) in r.items():
        if k == "foreign":
            problems.append((f"foreign-exception-escapes:{name}:{v}", "library exception or result", (k, v)))
    if "IBAN(t,allow_invalid)" in r:
        if r["IBAN(t,allow_invalid)"][0] != "foreign":
            problems.append(("allow_invalid-constructor-raised", "object", r["IBAN(t,allow_invalid)"]))
        return problems
    iv = r["is_valid"]
    if iv[0] != "ok":
        if iv[0] != "foreign":
            problems.append(("is_valid-raised", "bool", iv))
    elif not isinstance(iv[1], bool):
        problems.append(("is_valid-not-bool", "bool", repr(iv[1])))
    a, b, c = r["IBAN(t)"][0] == "ok", iv == ("ok", True), r["validate()"][0] == "ok"
    if not (a == b == c) and not any(x[0] == "foreign" for x in (r["IBAN(t)"], iv, r["validate()"])):
        problems.append(("entry-points-disagree", "constructor <=> is_valid <=> validate()",
                         {"IBAN(t)": r["IBAN(t)"], "is_valid": iv, "validate()": r["validate()"]}))
    if (r["IBAN(obj)"][0] == "ok") != a and "foreign" not in (r["IBAN(obj)"][0], r["IBAN(t)"][0]):
        problems.append(("constructor-given-an-IBAN-object-disagrees", r["IBAN(t)"], r["IBAN(obj)"]))
    if (r["IBAN(t,nat)"][0] == "ok") != (r["validate(True)"][0] == "ok") and "foreign" not in (
            r["IBAN(t,nat)"][0], r["validate(True)"][0]):
        problems.append(("entry-points-disagree-national", "IBAN(t,validate_bban=True) <=> validate(True)",
                         {"IBAN(t,nat)": r["IBAN(t,nat)"], "validate(True)": r["validate(True)"]}))
    for name in ("IBAN(t)", "IBAN(t,nat)", "validate()", "validate(True)"):
        k, cls = r[name]
        if k != "lib":
            continue
        national_requested = name in ("IBAN(t,nat)", "validate(True)")
        if cls in IBAN_CLASS_DEFECT:
            if IBAN_CLASS_DEFECT[cls] not in defects:
                problems.append((f"names-absent-defect:{cls}", f"defects present: {sorted(defects)}",
                                 (name, cls)))
        elif cls in NATIONAL_CLASSES:
            if not national_requested:
                problems.append((f"national-error-without-national-validation:{cls}",
                                 f"defects present: {sorted(defects)}", (name, cls)))
            else:
                present = national_defect_present(text, defects)
                if present is False:
                    problems.append((f"names-absent-defect:{cls}",
                                     f"national check passes or is not evaluable; defects {sorted(defects)}",
                                     (name, cls)))
        else:
            problems.append((f"undocumented-error-class:{cls}", "one of the documented validation "
                             "classes", (name, cls)))
    return problems


def bic_points(text: str):
    r = {}
    r["BIC(t)"] = lib.bic_parse(text, False)
    r["BIC(t,strict)"] = lib.bic_parse(text, True)
    k, obj = lib.outcome(lib.BIC, text, allow_invalid=True)
    if k != "ok":
        r["BIC(t,allow_invalid)"] = (k, obj)
        return r
    r["validate()"] = lib.outcome(obj.validate)
    r["validate(True)"] = lib.outcome(obj.validate, True)
    r["is_valid"] = lib.outcome(lambda: obj.is_valid)
    return r


def judge_bic(text: str):
    r = bic_points(text)
    problems = []
    for name, (k, v) in r.items():
        if k == "foreign":
            problems.append((f"bic-foreign-exception-escapes:{name}:{v}", "library exception or result", (k, v)))
    if "BIC(t,allow_invalid)" in r:
        if r["BIC(t,allow_invalid)"][0] != "foreign":
            problems.append(("bic-allow_invalid-constructor-raised", "object", r["BIC(t,allow_invalid)"]))
        return problems
    iv = r["is_valid"]
    if iv[0] == "lib":
        problems.append(("bic-is_valid-raised", "bool", iv))
    a, b, c = r["BIC(t)"][0] == "ok", iv == ("ok", True), r["validate()"][0] == "ok"
    if not (a == b == c) and "foreign" not in (r["BIC(t)"][0], iv[0], r["validate()"][0]):
        problems.append(("bic-entry-points-disagree", "constructor <=> is_valid <=> validate()",
                         {"BIC(t)": r["BIC(t)"], "is_valid": iv, "validate()": r["validate()"]}))
    if (r["BIC(t,strict)"][0] == "ok") != (r["validate(True)"][0] == "ok") and "foreign" not in (
            r["BIC(t,strict)"][0], r["validate(True)"][0]):
        problems.append(("bic-entry-points-disagree-strict", "BIC(t,strict) <=> validate(True)",
                         {"BIC(t,strict)": r["BIC(t,strict)"], "validate(True)": r["validate(True)"]}))
    for name, strict in (("BIC(t)", False), ("BIC(t,strict)", True), ("validate()", False),
                         ("validate(True)", True)):
        k, cls = r[name]
        if k != "lib":
            continue
        d = rb.defects(text, strict)
        want = IBAN_CLASS_DEFECT.get(cls)
        if want is None or want == "checksum":
            problems.append((f"bic-undocumented-error-class:{cls}", "length/structure/country class",
                             (name, cls)))
        elif want not in d:
            problems.append((f"bic-names-absent-defect:{cls}", f"defects present: {sorted(d)}", (name, cls)))
    return problems


def natvalid_base(country: str):
    """A structure-conforming BBAN that the national reference accepts, or None."""
    c = reg.countries()[country]
    b = bases.bban(c, "distinct")
    if country in nat.COUNTRIES:
        return nat.with_check(country, b) or _solve_czsk(country, b)
    return None


def _solve_czsk(country: str, b: str):
    for x in range(10):
        for y in range(10):
            t = b[:9] + str(x) + b[10:19] + str(y)
            if nat.accept(country, t):
                return t
    for w in range(100):
        for x in range(10):
            for y in range(10):
                t = b[:7] + f"{w:02d}" + str(x) + b[10:17] + f"{w:02d}" + str(y)
                if nat.accept(country, t):
                    return t
    return None


def iban_shard(args):
    country, tier = args
    part = par.Part()
    W = alphabet.wide(thorough=(tier == "thorough"))
    fillers = bases.FILLERS if tier == "thorough" else ["distinct"]
    blist = bases.base_ibans(country, fillers)
    nv = natvalid_base(country)
    if nv:
        blist.append(("natvalid", bases.iban_text(country, nv)))
    if tier == "quick" and not nv:
        blist += bases.base_ibans(country, ["seeded"])
    for filler, base in blist:
        gens = [families.single_edits(base, W), families.iban_lengths(base),
                families.iban_checkpairs(base), families.subst_rechecked(base)]
        if filler in ("distinct", "natvalid"):
            gens.append(families.iban_prefixes(base))
            gens.append(families.ws_padding(base))
            gens.append(families.token_overlays(base, country))
        if tier == "thorough" and filler in ("distinct", "natvalid"):
            gens.append(families.double_subst(base))
        part.count(base, nontrivial=False)
        for sig, exp, obs in judge_iban(base):
            part.violation(f"{sig} [base]", {"kind": "iban_text", "text": base, "how": f"base {filler}"},
                           exp, obs)
        examples = {}
        for gen in gens:
            for fam, text in gen:
                part["evals"] += 6
                if text != base:
                    if text[:2] != country:
                        part.foreign.add(text)
                    else:
                        part.seen.add(hash(text))
                if len(examples) < 4 and fam not in examples:
                    examples[fam] = text
                for sig, exp, obs in judge_iban(text):
                    part.violation(f"{sig} [{fam.split(':')[-1] if 'subst' in fam or 'insert' in fam else fam}]",
                                   {"kind": "iban_text", "text": text,
                                    "how": f"{fam} from base {filler} {base}"}, exp, obs)
        part.sample({"country": country, "filler": filler, "base": base, "examples": examples})
        part.stat("iban_bases")
    if country in nat.COUNTRIES:
        # a family of nationally valid bodies (reference digits): every error raised for them with
        # national validation on would name a defect that is not present
        from . import c06
        for body in c06.bodies(country, tier, ["distinct", "min"]):
            good = nat.with_check(country, body)
            if good is None:
                good = body  # no value of the check field is valid (e.g. NO, digit 10): still a case
            text = bases.iban_text(country, good)
            part["evals"] += 7
            part.seen.add(hash(text))
            for sig, exp, obs in judge_iban(text):
                part.violation(f"{sig} [nationally valid body]", {"kind": "iban_text", "text": text,
                               "how": "reference national digits"}, exp, obs)
        part.stat("national_countries_with_valid_family")
    if country == "DE":
        german_method_cases(part, tier)
    part.stat("countries")
    return part.done()


def german_method_cases(part, tier):
    """German IBANs of listed banks, one bank per Bundesbank method the registry uses: accounts the
    reference accepts / rejects and every single-digit change of them, through all entry points
    (national validation dispatches into the method objects only for listed banks)."""
    from . import c07, c14
    pools = c07.pools()
    # banks whose registry entry names a method the reference does not know (the library may or may
    # not implement it): a handful of accounts through all entry points
    named = sorted({e.get("checksum_algo") for es in lookup.by_key().values() for e in es
                    if e.get("country_code") == "DE" and e.get("checksum_algo")})
    for m in named:
        if m in pools:
            continue
        code = c14.bank_for_method(m)
        if code is None:
            continue
        for acct in ("1234567890", "0000000001", "9999999999"):
            text = bases.iban_text("DE", code + acct)
            part["evals"] += 7
            part.seen.add(hash(text))
            for sig, exp, obs in judge_iban(text):
                part.violation(f"{sig} [DE bank of method {m}, no reference]", {"kind": "iban_text", "text": text,
                               "how": f"listed bank {code} (method {m})"}, exp, obs)
        part.stat("german_methods_without_reference_through_iban")
    for m in sorted(pools):
        code = c14.bank_for_method(m)
        if code is None:
            continue
        acc, rej = pools[m]
        seeds = acc[:2] + rej[:2] + ["9999999999", "0123456789"[::-1]]
        seen = set()
        for a in seeds:
            variants = [a] + [a[:p] + d + a[p + 1:] for p in range(10) for d in "0123456789" if d != a[p]]
            if tier == "quick":
                variants = variants[:1] + variants[1::3]
            for acct in variants:
                if acct in seen:
                    continue
                seen.add(acct)
                text = bases.iban_text("DE", code + acct)
                part["evals"] += 6
                part.seen.add(hash(text))
                for sig, exp, obs in judge_iban(text):
                    part.violation(f"{sig} [DE bank of method {m}]", {"kind": "iban_text", "text": text,
                                   "how": f"listed bank {code} (method {m}), account {acct}"}, exp, obs)
        part.stat("german_methods_through_iban")


def bic_shard(args):
    base, tier = args
    part = par.Part()
    W = alphabet.wide(thorough=(tier == "thorough"))
    for fam, text in [("base", base)] + list(c04.gen(base, tier, W)):
        part["evals"] += 5
        if text != base:
            part.foreign.add("BIC:" + text)
        for sig, exp, obs in judge_bic(text):
            part.violation(f"{sig} [{fam}]", {"kind": "bic_text", "text": text,
                                              "how": f"{fam} from base {base}"}, exp, obs)
    part.stat("bic_bases")
    part.sample({"bic_base": base})
    return part.done()


INTERPRETERS = {"python -O": ["-O"], "python -W error": ["-W", "error"]}

EXTREME = ["", " ", "\n", "A", "0", "DE", "DE8", "-", "٣", "9" * 4300, "9" * 4301, "9" * 5000, "Z" * 2151,
           "DE89" + "3" * 5000, "DE" + "Z" * 3000, "IBAN", "None", "{}", "%s", "\x00", "0" * 40]


def extremes_shard(args):
    """Empty, one-character and very long texts (beyond the interpreter's limit for int <-> str
    conversion, 4300 digits) through EVERY public way of handing a text to the library: nothing but
    library exceptions, is_valid never raises, and the numeric / formatted views of unvalidated
    objects stay total."""
    part = par.Part()
    ways = {
        "IBAN(t)": lambda t: lib.IBAN(t),
        "IBAN(t,validate_bban=True)": lambda t: lib.IBAN(t, validate_bban=True),
        "IBAN(t,allow_invalid).is_valid": lambda t: lib.IBAN(t, allow_invalid=True).is_valid,
        "IBAN(t,allow_invalid).validate(True)": lambda t: lib.IBAN(t, allow_invalid=True).validate(True),
        "IBAN(t,allow_invalid).numeric": lambda t: lib.IBAN(t, allow_invalid=True).numeric,
        "IBAN(t,allow_invalid).formatted": lambda t: lib.IBAN(t, allow_invalid=True).formatted,
        "IBAN(t,allow_invalid).bic": lambda t: lib.IBAN(t, allow_invalid=True).bic,
        "IBAN.from_bban('DE',t)": lambda t: lib.IBAN.from_bban("DE", t),
        "IBAN.from_bban('DE',t,allow_invalid)": lambda t: lib.IBAN.from_bban("DE", t, allow_invalid=True),
        "IBAN.from_bban(t,t)": lambda t: lib.IBAN.from_bban(t, t),
        "IBAN.from_bban('',t,allow_invalid)": lambda t: lib.IBAN.from_bban("", t, allow_invalid=True),
        "BBAN('DE',t).validate_national_checksum()": lambda t: lib.BBAN("DE", t).validate_national_checksum(),
        "BBAN('',t).bank_code": lambda t: lib.BBAN("", t).bank_code,
        "IBAN.generate('DE',t,t)": lambda t: lib.IBAN.generate("DE", t, t),
        "IBAN.generate(t,'1','1')": lambda t: lib.IBAN.generate(t, "1", "1"),
        "BIC(t)": lambda t: lib.BIC(t),
        "BIC(t,allow_invalid).is_valid": lambda t: lib.BIC(t, allow_invalid=True).is_valid,
        "BIC(t,allow_invalid).formatted": lambda t: lib.BIC(t, allow_invalid=True).formatted,
        "BIC.from_bank_code('DE',t)": lambda t: lib.BIC.from_bank_code("DE", t),
        "BIC.from_bank_code(t,'43060967')": lambda t: lib.BIC.from_bank_code(t, "43060967"),
    }
    for t in EXTREME:
        for name, f in ways.items():
            part.count(("extreme", name, len(t), t[:6]))
            k, v = lib.outcome(f, t)
            if k == "foreign":
                part.violation(f"foreign-exception-escapes:{name}:{v} [extreme text]",
                               {"kind": "c05extreme", "way": name, "text_head": t[:12], "text_length": len(t)},
                               "library exception or result", (k, v))
            elif name.endswith(".is_valid") and (k != "ok" or not isinstance(v, bool)):
                part.violation(f"is_valid-raised:{name} [extreme text]",
                               {"kind": "c05extreme", "way": name, "text_head": t[:12], "text_length": len(t)},
                               "bool", (k, v))
    part.stat("extreme_texts", len(EXTREME))
    part.sample({"extreme_text_lengths": sorted({len(t) for t in EXTREME}), "ways": list(ways)})
    return part.done()


def optimised_child(arg):
    """Runs inside a brand-new interpreter started with other options (``python -O``, ``python -W
    error``): all entry points on core texts of every country, the nationally valid families, German
    listed banks, BIC bases."""
    tier, label = arg if isinstance(arg, tuple) else (arg, "python -O")
    part = par.Part()
    small = ["0", "A", "a", "-", " ", "٣"]
    for country in sorted(reg.countries()):
        blist = bases.base_ibans(country, ["distinct"])
        nv = natvalid_base(country)
        if nv:
            blist.append(("natvalid", bases.iban_text(country, nv)))
        for filler, base in blist:
            spelled = [("spelling:lower", base.lower()),
                       ("spelling:printed-lower", " ".join(base[i:i + 4] for i in range(0, len(base), 4)).lower())]
            for gen in (families.iban_checkpairs(base), families.single_edits(base, small), spelled):
                for fam, text in gen:
                    part["evals"] += 7
                    part.seen.add(hash((label, text)))
                    for sig, exp, obs in judge_iban(text):
                        part.violation(f"{sig} [{label}]", {"kind": "iban_text", "text": text,
                                       "how": f"{fam} from {base}, {label}", "interpreter": label}, exp, obs)
    german_method_cases(part, "quick")
    for b in c04.bases()[:6]:
        for fam, text in list(families.single_edits(b, small)) + [("spelling:lower", b.lower())]:
            part["evals"] += 5
            part.seen.add(hash((label + " bic", text)))
            for sig, exp, obs in judge_bic(text):
                part.violation(f"{sig} [{label}]", {"kind": "bic_text", "text": text,
                               "how": label, "interpreter": label}, exp, obs)
    part.stat("optimised_interpreter_runs")
    return part.done()


def shard(args):
    if args[0] == "extremes":
        return extremes_shard(args)
    if args[0] in INTERPRETERS:
        return par.in_interpreter(INTERPRETERS[args[0]], "mc.props.c05", "optimised_child", (args[1], args[0]))
    return bic_shard(args[1:]) if args[0] == "bic" else iban_shard(args[1:])


def replay(case: dict) -> dict:
    if case.get("kind") == "c05extreme":
        part = extremes_shard(("extremes", "quick"))
        hit = [v for v in part["violations"] if v["case"] == case]
        return {"ok": not hit, "observed": [h["observed"] for h in hit[:3]]}
    if case.get("interpreter"):
        label = "python -O" if case["interpreter"] == "-O" else case["interpreter"]
        part = par.in_interpreter(INTERPRETERS[label], "mc.props.c05", "optimised_child", ("quick", label))
        hit = [v for v in part["violations"] if v["case"]["text"] == case["text"]]
        return {"ok": not hit, "observed": [h["observed"] for h in hit[:3]], "interpreter": label}
    probs = judge_iban(case["text"]) if case["kind"] == "iban_text" else judge_bic(case["text"])
    return {"ok": not probs, "observed": [(p[0], p[2]) for p in probs],
            "expected": [p[1] for p in probs]}


def main(tier: str) -> int:
    run = report.Run(PID, tier, "exploration", RULE)
    countries = sorted(reg.countries())
    shards = [("extremes", tier)] + [(lb, tier) for lb in INTERPRETERS] + [("iban", c, tier) for c in countries] + [("bic", b, tier) for b in c04.bases()]
    par.run_shards(run, shard, shards)
    run.extra.update({"countries": len(countries), "bic_bases": len(c04.bases()),
                      "entry_points": {"iban": 7, "bic": 5},
                      "alphabet_size": len(alphabet.wide(tier == "thorough")),
                      "deviation_bound_completed": "1 edit over W" + (
                          "; 2 substitutions over W2" if tier == "thorough" else "")})
    run.assumptions += ["reference defect predicates mc/ref/iban.py, mc/ref/bic.py; national verdicts "
                        "mc/ref/nat.py, mc/ref/bbk.py via mc/ref/lookup.py (abstentions not judged)"]
    return run.finish(replay)
