"""C06 - national check digits are judged by the country's published algorithm."""
from __future__ import annotations

import itertools

from .. import lib
from ..engine import alphabet, bases, families, par, report
from ..ref import iban as ri
from ..ref import nat, reg

PID = "C06"
RULE = ("for each of the 22 countries: bodies = every base BBAN x every single-position "
        "substitution over the position's class alphabet outside the check field (thorough: also "
        "two positions over a reduced alphabet); for each body every value of the check field "
        "(10 / 26 / 100 values; IS: ninth kennitala digit; CZ/SK: the two weight-1 digits), wrapped "
        "in reference check digits, through IBAN(t, validate_bban=True), IBAN(t).validate(True) and "
        "iban.bban.validate_national_checksum(); oracle R-NAT (accept side populated by independently "
        "computed digits); BBAN-level call returns a true value or raises. Every other country "
        "without a registered algorithm: bases and single substitutions with and without the flag "
        "must behave identically. Over a single-edit family of every country: accepted with the "
        "flag => accepted without. distinct = distinct (text) cases.")


def check_positions(country: str) -> list[int]:
    if country in ("CZ", "SK"):
        return [9, 19]
    s = nat.check_span(country)
    return list(range(s[0], s[1]))


_SPELLINGS = [0]


def three_ways(text: str):
    """-> dict entry point -> True (accepted) / False (library rejection) / 'foreign:<cls>' /
    'returned:<value>' for a BBAN-level success value that is not true."""
    out = {}
    k, v = lib.iban_parse(text, True)
    out["IBAN(t,validate_bban=True)"] = True if k == "ok" else (False if k == "lib" else f"foreign:{v}")
    k0, obj = lib.outcome(lib.IBAN, text)
    if k0 != "ok":
        return None  # not accepted without the flag: not a C06 case
    k, v = lib.outcome(obj.validate, True)
    out["validate(True)"] = True if k == "ok" else (False if k == "lib" else f"foreign:{v}")
    k, v = lib.outcome(obj.bban.validate_national_checksum)
    if k == "ok":
        out["bban.validate_national_checksum()"] = True if v else f"returned:{v!r}"
    else:
        out["bban.validate_national_checksum()"] = False if k == "lib" else f"foreign:{v}"
    _SPELLINGS[0] += 1
    if _SPELLINGS[0] % 8:
        return out
    # (every eighth text) the request spelled in other ways: a truthy flag that is not the literal
    # True, the keyword form of validate(), the assembly from the parts
    bban = text[4:]
    for name, f in (("IBAN(t,validate_bban=1)", lambda: lib.IBAN(text, validate_bban=1)),
                    ("validate(validate_bban=True)", lambda: lib.IBAN(text).validate(validate_bban=True)),
                    ("validate(1)", lambda: lib.IBAN(text, allow_invalid=True).validate(1)),
                    ("from_bban(cc,bban,validate_bban=True)", lambda: lib.IBAN.from_bban(text[:2], bban, validate_bban=True)),
                    ("from_bban(cc,BBAN,False,True)", lambda: lib.IBAN.from_bban(text[:2], lib.BBAN(text[:2], bban), False, True))):
        k, v = lib.outcome(f)
        out[name] = True if k == "ok" else (False if k == "lib" else f"foreign:{v}")
    return out


def judge(country: str, bban: str):
    text = bases.iban_text(country, bban)
    got = three_ways(text)
    if got is None:
        return "skipped", None, None, text
    exp = nat.accept(country, bban)
    bad = {n: g for n, g in got.items() if g is not exp}
    if not bad:
        return "ok", None, None, text
    n, g = sorted(bad.items())[0]
    if g is True:
        sig = "accepts-invalid-national-digits"
    elif g is False:
        sig = "rejects-valid-national-digits"
    else:
        sig = str(g).split(":")[0] + "-on-" + ("valid" if exp else "invalid")
    return "bad", f"{country}:{n}:{sig}", ("accept" if exp else "reject"), (text, got)


def nat_fillers(tier: str):
    return ["distinct", "seeded", "max", "letters", "min"] if tier == "quick" else bases.FILLERS


def accepted_fillers(country: str, tier: str):
    """Fillers whose bases are pairwise further apart (outside the check field) than twice the
    deviation bound, so that the deviation families of one country cannot overlap and the
    per-shard distinct counts add up exactly."""
    c = reg.countries()[country]
    cps = set(check_positions(country))
    d = 2 if tier == "thorough" else 1
    out, kept = [], []
    for f in dict.fromkeys(nat_fillers(tier)):
        b = bases.bban(c, f)
        if all(sum(1 for i, (x, y) in enumerate(zip(b, k)) if x != y and i not in cps) > 2 * d
               for k in kept):
            kept.append(b)
            out.append(f)
    return out


def bodies(country: str, tier: str, fillers):
    c = reg.countries()[country]
    cl = bases.classes_of(c)
    cps = set(check_positions(country))
    seen = set()
    for f in dict.fromkeys(fillers):
        b = bases.bban(c, f)
        if b in seen:
            continue
        seen.add(b)
        yield b
        free = [p for p in range(len(b)) if p not in cps]
        for p in free:
            for ch in reg.CLASS_CHARS[cl[p]]:
                if ch != b[p]:
                    yield b[:p] + ch + b[p + 1:]
        if f == "distinct":
            # value relationships: one field copied into another field of the same width
            spans = sorted((sp, n) for n, sp in c.positions.items() if n != "national_checksum_digits")
            for (sa, na), (sb, nb) in itertools.permutations(spans, 2):
                if sa[1] - sa[0] == sb[1] - sb[0] and not (set(range(*sb)) & cps):
                    nbody = b[:sb[0]] + b[sa[0]:sa[1]] + b[sb[1]:]
                    if c.matches(nbody):
                        yield nbody
        if tier == "thorough" and f in ("distinct", "letters"):
            red = {"n": "059", "a": "AMZ", "c": "09AZ"}
            for p, q in itertools.combinations(free, 2):
                for x in red[cl[p]]:
                    for y in red[cl[q]]:
                        if x != b[p] and y != b[q]:
                            yield b[:p] + x + b[p + 1:q] + y + b[q + 1:]


def nat_shard(args):
    country, tier, filler = args
    part = par.Part()
    c = reg.countries()[country]
    cl = bases.classes_of(c)
    cps = check_positions(country)
    alph = [reg.CLASS_CHARS[cl[p]] for p in cps]
    nacc = 0
    for body in bodies(country, tier, [filler]):
        for vals in itertools.product(*alph):
            chars = list(body)
            for p, v in zip(cps, vals):
                chars[p] = v
            b = "".join(chars)
            part.count(b)
            part["evals"] += 3
            status, sig, exp, obs = judge(country, b)
            if status == "skipped":
                part.stat("skipped_not_accepted_without_flag")
            elif status == "bad":
                part.violation(sig, {"kind": "c06", "country": country, "bban": b}, exp, obs)
            if nat.accept(country, b):
                nacc += 1
        part.stat("bodies")
    part.stat("reference_accepts", nacc)
    if filler == "distinct":
        partner_sequences(part, country, tier)
    part.stat("national_country_x_filler")
    part.sample({"country": country, "check_positions": cps,
                 "valid_example": bases.iban_text(country, nat.with_check(country, bases.bban(c, "distinct")) or "")
                 if country not in ("CZ", "SK") else None})
    return part.done()


def partner_sequences(part, country, tier):
    """The same BBAN text validated nationally under a partner country (same BBAN length, with and
    without an algorithm of its own) immediately before it is judged for ``country``: a verdict
    remembered per BBAN text would be replayed for the wrong country."""
    c = reg.countries()[country]
    cl = bases.classes_of(c)
    cps = check_positions(country)
    alph = [reg.CLASS_CHARS[cl[p]] for p in cps]
    all_partners = bases.partners(country)
    with_algo = [p for p in all_partners if p in nat.COUNTRIES]
    without = [p for p in all_partners if p not in nat.COUNTRIES and p != "DE"]
    chosen = without[:2] + with_algo[:2]
    if not chosen:
        part.stat("countries_without_partner")
        return
    body0 = bases.bban(c, "digits")
    bodies = [body0] + [body0[:p] + d + body0[p + 1:] for p in range(0, len(body0), 3) for d in "05"
                        if p not in cps and d != body0[p] and d in reg.CLASS_CHARS[cl[p]]]
    for pc in chosen:
        pcountry = reg.countries()[pc]
        for body in bodies:
            for vals in itertools.product(*alph):
                chars = list(body)
                for p, v in zip(cps, vals):
                    chars[p] = v
                b = "".join(chars)
                if not pcountry.matches(b):
                    continue
                ptext = bases.iban_text(pc, b)
                lib.iban_parse(ptext, True)
                k, o = lib.outcome(lib.IBAN, ptext)
                if k == "ok":
                    lib.outcome(o.bban.validate_national_checksum)
                part.count(("seq", pc, b))
                part["evals"] += 6
                # assembly for this country from the partner's BBAN *object*, national validation on
                if k == "ok":
                    k4, v4 = lib.outcome(lambda: str(lib.IBAN.from_bban(country, o.bban, validate_bban=True)))
                    exp4 = nat.accept(country, b)
                    if (k4 == "ok") is not exp4 and k4 != "foreign" or k4 == "foreign":
                        part.violation(f"{country}:from_bban-with-BBAN-object-of-{'a partner country'}:"
                                       + ("accepts-invalid" if k4 == "ok" else "rejects-valid" if k4 == "lib"
                                          else "foreign-exception"),
                                       {"kind": "c06seq", "country": country, "bban": b, "partner": pc,
                                        "object": True}, "accept" if exp4 else "reject", (k4, v4))
                status, sig, exp, obs = judge(country, b)
                if status == "bad":
                    part.violation(sig + "-after-same-BBAN-text-in-partner-country",
                                   {"kind": "c06seq", "country": country, "bban": b, "partner": pc}, exp, obs)
        part.stat("partner_sequences")


def bank_shard(args):
    """Registry-driven bodies: for every listed (country, bank code) key of the national countries a
    BBAN around that bank code - with the reference's digits (accept) and with two other values of
    the check field (reject) - judged right after a German IBAN of a listed bank went through
    national validation (what a bank entry or an earlier country leaves behind must not matter)."""
    from ..ref import lookup
    from . import c12
    _, country, tier = args
    part = par.Part()
    keys = sorted(k[1] for k in lookup.by_key() if k[0] == country)
    de_text = bases.iban_text("DE", "37040044" + "0532013000")
    cps = check_positions(country)
    c = reg.countries()[country]
    cl = bases.classes_of(c)
    for code in keys:
        text = c12.build_iban(country, code)
        if text is None:
            part.stat("keys_without_buildable_iban")
            continue
        body = text[4:]
        good = nat.with_check(country, body)
        variants = []
        if good is not None:
            variants.append(good)
            base_for_bad = good
        else:
            base_for_bad = body
        for delta in (1, 2):
            chars = list(base_for_bad)
            p = cps[-1]
            a = reg.CLASS_CHARS[cl[p]]
            chars[p] = a[(a.index(chars[p]) + delta) % len(a)]
            variants.append("".join(chars))
        for b in variants:
            if c.lookup_key(b) != code:
                continue  # the check field is part of the lookup key (PL): another bank
            lib.iban_parse(de_text, True)
            part.count(("bank", country, b))
            part["evals"] += 4
            status, sig, exp, obs = judge(country, b)
            if status == "bad":
                part.violation(sig + "-for-a-listed-bank", {"kind": "c06bank", "country": country, "bban": b,
                                                           "bank_code": code}, exp, obs)
    part.stat("listed_bank_keys", len(keys))
    return part.done()


def other_shard(args):
    """Countries outside the 22: flag must not matter (unless someone registered an algorithm,
    then it may only reject).  For all countries: accepted with flag => accepted without."""
    country, tier = args
    part = par.Part()
    registered = any(k.startswith(country + ":") for k in lib.checksum.algorithms)
    has_rule = country in nat.COUNTRIES or country == "DE"
    W = alphabet.ASCII_PRINTABLE + alphabet.W2 if tier == "quick" else alphabet.wide(False)
    fillers = ["distinct", "seeded"] if tier == "quick" else bases.FILLERS
    for filler, base in bases.base_ibans(country, fillers):
        for fam, text in itertools.chain([("base", base)], families.single_edits(base, W),
                                         families.iban_checkpairs(base)):
            part.count(text)
            part["evals"] += 1
            a = lib.iban_parse(text, True)
            b = lib.iban_parse(text, False)
            if a[0] == "ok" and b[0] != "ok":
                part.violation(f"{country}:accepted-with-flag-but-not-without",
                               {"kind": "c06flag", "text": text}, b, a)
            if not has_rule and not registered and a != b:
                part.violation(f"{country}:flag-changes-outcome-without-national-algorithm",
                               {"kind": "c06flag", "text": text, "strict": True}, b, a)
        part.stat("flag_bases")
    part.stat("flag_countries")
    if not has_rule:
        part.stat("countries_without_rule")
        if registered:
            part.stat("countries_without_rule_but_registered_algorithm")
    return part.done()


def optimised_child(tier):
    """Runs inside ``python -O``: the distinct base of every national country x every check value."""
    part = par.Part()
    for country in sorted(k for k in nat.COUNTRIES if k in reg.countries()):
        c = reg.countries()[country]
        cl = bases.classes_of(c)
        cps = check_positions(country)
        body = bases.bban(c, "distinct")
        for vals in itertools.product(*[reg.CLASS_CHARS[cl[p]] for p in cps]):
            chars = list(body)
            for p, v in zip(cps, vals):
                chars[p] = v
            b = "".join(chars)
            part.count(("-O", country, b))
            part["evals"] += 2
            status, sig, exp, obs = judge(country, b)
            if status == "bad":
                part.violation(sig + " [python -O]", {"kind": "c06", "country": country, "bban": b,
                                                      "interpreter": "-O"}, exp, obs)
    part.stat("optimised_interpreter_runs")
    return part.done()


def listed_shard(args):
    """The verdict is that of the published algorithm WHATEVER the bank registry lists: for every
    national country a registry is installed whose entries are filed under the bank-identifying key
    of a nationally INVALID body (every check value tried), of the valid body, and under the bank code
    alone; then the three ways of asking are judged for every value of the check field."""
    from ..engine import sandbox
    _, country, tier = args
    part = par.Part()
    c = reg.countries()[country]
    if not c.positions or any(c.span(x) is None for x in c.lookup_components):
        return part.done()
    before = sandbox.deep_snapshot()
    cl = bases.classes_of(c)
    cps = check_positions(country)
    body = bases.bban(c, "distinct")
    variants = []
    for vals in itertools.product(*[reg.CLASS_CHARS[cl[p]] for p in cps]):
        chars = list(body)
        for p, v in zip(cps, vals):
            chars[p] = v
        variants.append("".join(chars))
    variants = variants[: (100 if tier == "quick" else 1000)]
    keys = list(dict.fromkeys([c.lookup_key(b) for b in variants] + [c.component(body, "bank_code")]))
    banks = [{"country_code": country, "bank_code": k, "bic": f"AAAA{country}AA", "name": "listed", "short_name": "l",
              "primary": True} for k in keys if k]
    with sandbox.bank_list(banks):
        for b in variants:
            part.count((country, "listed", b))
            st, sig, exp, obs = judge(country, b)
            if st == "bad":
                part.violation(sig + " [bank listed in a synthetic registry]",
                               {"kind": "c06listed", "country": country, "bban": b}, exp, obs)
    sandbox.assert_restored(before)
    part.stat("countries_judged_with_every_key_listed")
    return part.done()


def shard(args):
    if args[0] == "listed":
        return listed_shard(args)
    if args[0] == "python -O":
        return par.in_interpreter(["-O"], "mc.props.c06", "optimised_child", args[1])
    if args[0] == "bank":
        return bank_shard(args)
    return nat_shard(args[1:]) if args[0] == "nat" else other_shard(args[1:])


def replay(case: dict) -> dict:
    _SPELLINGS[0] = 7  # the replayed text gets every spelling of the request
    if case.get("interpreter") == "-O":
        part = par.in_interpreter(["-O"], "mc.props.c06", "optimised_child", "quick")
        hit = [v for v in part["violations"] if v["case"]["bban"] == case["bban"]]
        return {"ok": not hit, "observed": hit[0]["observed"] if hit else None, "interpreter": "python -O"}
    if case["kind"] == "c06seq":
        ptext = bases.iban_text(case["partner"], case["bban"])
        lib.iban_parse(ptext, True)
        k, o = lib.outcome(lib.IBAN, ptext)
        if k == "ok":
            lib.outcome(o.bban.validate_national_checksum)
        if case.get("object") and k == "ok":
            k4, v4 = lib.outcome(lambda: str(lib.IBAN.from_bban(case["country"], o.bban, validate_bban=True)))
            exp4 = nat.accept(case["country"], case["bban"])
            return {"ok": k4 != "foreign" and (k4 == "ok") is exp4, "expected": exp4, "observed": (k4, v4)}
        status, sig, exp, obs = judge(case["country"], case["bban"])
        return {"ok": status != "bad", "signature": sig, "expected": exp, "observed": obs}
    if case["kind"] == "c06listed":
        part = listed_shard(("listed", case["country"], "quick"))
        hit = [v for v in part["violations"] if v["case"]["bban"] == case["bban"]]
        return {"ok": not hit, "observed": hit[0]["observed"] if hit else None}
    if case["kind"] == "c06bank":
        lib.iban_parse(bases.iban_text("DE", "37040044" + "0532013000"), True)
        status, sig, exp, obs = judge(case["country"], case["bban"])
        return {"ok": status != "bad", "signature": sig, "expected": exp, "observed": obs}
    if case["kind"] == "c06":
        _SPELLINGS[0] = 7
        status, sig, exp, obs = judge(case["country"], case["bban"])
        return {"ok": status != "bad", "signature": sig, "expected": exp, "observed": obs}
    a = lib.iban_parse(case["text"], True)
    b = lib.iban_parse(case["text"], False)
    bad = (a[0] == "ok" and b[0] != "ok") or (case.get("strict") and a != b)
    return {"ok": not bad, "observed": {"with": a, "without": b}}


def main(tier: str) -> int:
    run = report.Run(PID, tier, "exploration", RULE)
    table = reg.countries()
    natc = sorted(k for k in nat.COUNTRIES if k in table)
    shards = [("nat", c, tier, f) for c in natc for f in accepted_fillers(c, tier)] + [("other", c, tier) for c in sorted(table)]
    shards += [("bank", c, tier) for c in natc] + [("python -O", tier)] + [("listed", c, tier) for c in natc]
    par.run_shards(run, shard, shards)
    run.extra.update({"national_countries": natc,
                      "missing_from_table": sorted(nat.COUNTRIES - set(table)),
                      "check_field_values_per_body": {c: len(list(itertools.product(
                          *[reg.CLASS_CHARS[bases.classes_of(table[c])[p]] for p in check_positions(c)])))
                          for c in natc}})
    run.assumptions += ["reference rules mc/ref/nat.py with the published field layouts hard-coded "
                        "(independent of the library's position table)"]
    return run.finish(replay)
