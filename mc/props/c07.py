"""C07 - German account numbers are judged by the Bundesbank method of their bank."""
from __future__ import annotations

import itertools
import random

from .. import lib
from ..engine import par, report
from ..engine.report import SEED
from ..ref import bbk, lookup, reg
from ..ref import iban as ri

PID = "C07"
RULE = ("(a) method level: for every key DE:<m> of checksum.algorithms, account numbers = every base "
        "(ten zeros, 0123456789, landmarks at the edges of the method's special rules, one seeded) x "
        "all deviations in <= d positions x all 9 other digits (d=2 quick, d=3 thorough; thorough "
        "also the full 10^k product for methods whose rule reads <= 6 positions), through "
        "algorithms['DE:m'].validate([account], ''); oracle R-BBK, abstentions not compared. "
        "(b) dispatch level: for every German bank code of the registry, reference-accepted and "
        "reference-rejected account numbers of the bank's method through IBAN(.., validate_bban=True); "
        "unimplemented methods and unlisted bank codes one edit away from listed ones must accept. "
        "(c) the same dispatch cases after IBANs of other countries carrying the same bank-identifying "
        "key have been looked up in the same process (and in the opposite order). "
        "distinct = distinct (method, account) resp. (bank code, account) pairs.")


def lib_methods() -> list[str]:
    return sorted(k[3:] for k in lib.checksum.algorithms if k.startswith("DE:"))


def lib_verdict(method: str, account: str):
    k, v = lib.outcome(lib.checksum.algorithms["DE:" + method].validate, [account], "")
    if k == "ok":
        return bool(v)
    if k == "lib":
        return False
    return f"foreign:{v}"


def bases_for(method: str) -> list[str]:
    rnd = random.Random(f"{SEED}:{method}")
    return list(dict.fromkeys(bbk.landmarks(method) + [f"{rnd.randrange(10 ** 10):010d}"]))


def deviations(base: str, d: int):
    yield base
    for k in range(1, d + 1):
        for pos in itertools.combinations(range(10), k):
            alts = [[c for c in "0123456789" if c != base[p]] for p in pos]
            for vals in itertools.product(*alts):
                chars = list(base)
                for p, v in zip(pos, vals):
                    chars[p] = v
                yield "".join(chars)


def judge_method(method: str, account: str):
    lv = lib_verdict(method, account)
    rv = bbk.verdict(method, account)
    if isinstance(lv, str):
        return False, f"method {method}: {lv} escapes", rv, lv
    if rv is None or lv == rv:
        return True, None, rv, lv
    sig = (f"method {method}: library accepts, published rule rejects" if lv
           else f"method {method}: library rejects, published rule accepts")
    return False, sig, rv, lv


def method_shard(args):
    _, method, base, tier = args
    part = par.Part()
    d = 3 if tier == "thorough" else 2
    if method not in bbk.METHODS:
        part.stat("methods_without_reference")
    for acct in deviations(base, d):
        part.count((method, acct))
        ok, sig, rv, lv = judge_method(method, acct)
        if rv is None:
            part.stat("reference_abstains")
        elif rv:
            part.stat("reference_accepts")
        if not ok:
            part.violation(sig, {"kind": "c07m", "method": method, "account": acct}, rv, lv)
    part.stat("method_x_base")
    part.sample({"method": method, "base": base})
    return part.done()


def product_shard(args):
    _, method, positions, tier = args
    part = par.Part()
    base = "0000000000"
    for vals in itertools.product("0123456789", repeat=len(positions)):
        chars = list(base)
        for p, v in zip(positions, vals):
            chars[p - 1] = v
        acct = "".join(chars)
        part.count((method, acct))
        ok, sig, rv, lv = judge_method(method, acct)
        if not ok:
            part.violation(sig, {"kind": "c07m", "method": method, "account": acct}, rv, lv)
    part.stat("full_products")
    return part.done()


# --------------------------------------------------------------------- dispatch level
def pools():
    """method -> (accepted accounts, rejected accounts) by the reference."""
    out = {}
    for m in bbk.METHODS:
        acc, rej = [], []
        for b in bases_for(m):
            for a in deviations(b, 1):
                v = bbk.verdict(m, a)
                if v is True and len(acc) < 12:
                    acc.append(a)
                elif v is False and len(rej) < 12:
                    rej.append(a)
            if len(acc) >= 12 and len(rej) >= 12:
                break
        out[m] = (acc, rej)
    return out


def iban_verdict(bank_code: str, account: str):
    bban = bank_code + account
    text = "DE" + ri.check_digits("DE", bban) + bban
    k0, v0 = lib.iban_parse(text, False)
    if k0 != "ok":
        return "skipped", text
    k, v = lib.iban_parse(text, True)
    # the same request spelled in other ways must give the same answer
    for name, f in (("validate_bban=1", lambda: lib.IBAN(text, validate_bban=1)),
                    ("validate(True) of the unvalidated object", lambda: lib.IBAN(text, allow_invalid=True).validate(True)),
                    ("validate(validate_bban=1)", lambda: lib.IBAN(text).validate(validate_bban=1)),
                    ("from_bban", lambda: lib.IBAN.from_bban("DE", bban, validate_bban=True)),
                    ("BBAN.validate_national_checksum", lambda: lib.BBAN("DE", bban).validate_national_checksum())):
        k2, v2 = lib.outcome(f)
        if k2 == "foreign" or (k2 == "ok") != (k == "ok"):
            return f"foreign:{name} answers {k2}:{v2 if k2 != 'ok' else 'accept'} but IBAN(t, validate_bban=True) {k}", text
    return (True if k == "ok" else (False if k == "lib" else f"foreign:{v}")), text


def judge_dispatch(bank_code: str, account: str, implemented: set):
    m = lookup.german_method(bank_code + account)
    got, text = iban_verdict(bank_code, account)
    if got == "skipped":
        return True, None, None, None
    if isinstance(got, str):
        return False, f"dispatch: {got} escapes", None, (text, got)
    if m == lookup.AMBIGUOUS:
        return True, None, None, None  # registry entries of the key disagree: not judged here
    if m is None or m not in implemented:
        exp = True  # unlisted bank or method the library does not implement: accepted
        why = "unlisted bank" if m is None else f"method {m} not implemented by the library"
    else:
        exp = bbk.verdict(m, account)
        why = f"method {m}"
        if exp is None:
            # abstention: fall back to "same verdict as the method object, whatever the bank code"
            exp = lib_verdict(m, account)
            why += " (reference abstains; compared with the method object)"
    if got == exp:
        return True, None, exp, got
    return False, (f"dispatch ({why}): IBAN verdict {'accept' if got else 'reject'} but expected "
                   f"{'accept' if exp else 'reject'}"), exp, (text, got)


def dispatch_shard(args):
    _, codes, tier = args
    part = par.Part()
    implemented = set(lib_methods())
    pl = pools()
    listed = {k[1] for k in lookup.by_key() if k[0] == "DE"}
    n_each = 2 if tier == "quick" else 6
    for code in codes:
        m = lookup.german_method(code + "0" * 10)
        accts = []
        if m in pl and m in implemented:
            acc, rej = pl[m]
            off = int(code) % 7
            accts = [acc[(off + i) % len(acc)] for i in range(min(n_each, len(acc)))] if acc else []
            accts += [rej[(off + i) % len(rej)] for i in range(min(n_each, len(rej)))] if rej else []
            part.stat("banks_with_implemented_method")
        else:
            accts = ["0000000001", "1234567890", "9999999999", "0648489890"]
            part.stat("banks_without_implemented_method")
        for a in accts:
            part.count((code, a))
            ok, sig, exp, obs = judge_dispatch(code, a, implemented)
            if not ok:
                part.violation(sig, {"kind": "c07d", "bank_code": code, "account": a}, exp, obs)
        # unlisted neighbours: one digit changed
        for p in (0, 7) if tier == "quick" else range(8):
            for dgt in "05" if tier == "quick" else "0123456789":
                nb = code[:p] + dgt + code[p + 1:]
                if nb in listed:
                    continue
                for a in ("0000000001", "5419316780"):
                    part.count((nb, a))
                    part.stat("unlisted_neighbour_cases")
                    ok, sig, exp, obs = judge_dispatch(nb, a, implemented)
                    if not ok:
                        part.violation(sig, {"kind": "c07d", "bank_code": nb, "account": a}, exp, obs)
    part.stat("bank_codes", len(codes))
    part.sample({"bank_code": codes[0], "method": lookup.german_method(codes[0] + "0" * 10)})
    return part.done()


def foreign_first_shard(args):
    """The verdict depends on nothing but the method and the account number - in particular not on
    which IBANs of OTHER countries were looked at before.  One process: for German bank codes that
    are also the bank-identifying key of another country's IBAN (listed there or not), that foreign
    IBAN's bank / BIC / names are read first, then the German accounts are judged; then once more in
    the opposite order."""
    from . import c12, c14
    _, tier = args
    part = par.Part()
    implemented = set(lib_methods())
    pl = pools()
    by_text: dict = {}
    for (cc, key) in lookup.by_key():
        by_text.setdefault(key, set()).add(cc)
    shared = sorted(k for k, ccs in by_text.items() if "DE" in ccs and len(ccs) > 1)
    per_method = [c14.bank_for_method(m) for m in sorted(implemented)]
    codes = list(dict.fromkeys(shared + [c for c in per_method if c]))
    hosts = [cc for cc, co in sorted(reg.countries().items()) if cc != "DE" and co.positions]
    for code in codes:
        m = lookup.german_method(code + "0" * 10)
        if m in pl and m in implemented:
            accts = pl[m][0][:2] + pl[m][1][:2]
        else:
            accts = ["0000000001", "0648489890"]
        foreign = [(cc, c12.build_iban(cc, code)) for cc in hosts]
        foreign = [(cc, t) for cc, t in foreign if t][: (4 if tier == "quick" and code not in shared else 40)]
        for rnd in ("foreign-first", "german-first"):
            if rnd == "german-first":
                for a in accts:
                    judge_dispatch(code, a, implemented)
            for cc, t in foreign:
                k, o = lib.outcome(lib.IBAN, t)
                if k == "ok":
                    for name in ("bank", "bic", "bank_name", "bank_short_name"):
                        lib.outcome(lambda: getattr(o, name))
                    lib.outcome(lib.IBAN, t, validate_bban=True)
                part.stat("foreign_ibans_read_first")
            for a in accts:
                part.count(("foreign-first", rnd, code, a))
                ok, sig, exp, obs = judge_dispatch(code, a, implemented)
                if not ok:
                    part.violation(sig + " [after IBANs of other countries carrying the same key]",
                                   {"kind": "c07f", "bank_code": code, "account": a,
                                    "foreign": [t for _, t in foreign], "order": rnd}, exp, obs)
    part.stat("german_codes_probed_after_foreign_lookups", len(codes))
    part.sample({"german_code_also_a_foreign_key": shared[:3], "foreign_ibans": [t for _, t in foreign][:3]})
    return part.done()


def optimised_child(tier):
    """Runs inside ``python -O`` (the method template guards its slices with ``assert``): every
    method x every base x single-digit deviations, and one listed bank per method through IBAN."""
    part = par.Part()
    implemented = set(lib_methods())
    for m in lib_methods():
        for base in bases_for(m):
            for acct in deviations(base, 1):
                part.count(("-O", m, acct))
                ok, sig, rv, lv = judge_method(m, acct)
                if not ok:
                    part.violation(sig + " [python -O]", {"kind": "c07m", "method": m, "account": acct,
                                                          "interpreter": "-O"}, rv, lv)
    from . import c14
    pl = pools()
    for m in sorted(pl):
        code = c14.bank_for_method(m)
        if code:
            for a in pl[m][0][:3] + pl[m][1][:3]:
                part.count(("-O", code, a))
                ok, sig, exp, obs = judge_dispatch(code, a, implemented)
                if not ok:
                    part.violation(sig + " [python -O]", {"kind": "c07d", "bank_code": code, "account": a,
                                                          "interpreter": "-O"}, exp, obs)
    part.stat("optimised_interpreter_runs")
    return part.done()


def shard(args):
    if args[0] == "python -O":
        return par.in_interpreter(["-O"], "mc.props.c07", "optimised_child", args[1])
    return {"m": method_shard, "p": product_shard, "d": dispatch_shard, "f": foreign_first_shard}[args[0]](args)


def replay(case: dict) -> dict:
    if case.get("interpreter") == "-O":
        part = par.in_interpreter(["-O"], "mc.props.c07", "optimised_child", "quick")
        hit = [v for v in part["violations"] if v["case"].get("account") == case.get("account")
               and v["case"].get("method") == case.get("method")]
        return {"ok": not hit, "observed": hit[0]["observed"] if hit else None, "interpreter": "python -O"}
    if case["kind"] == "c07f":
        part = foreign_first_shard(("f", "quick"))
        hit = [v for v in part["violations"] if v["case"]["bank_code"] == case["bank_code"]
               and v["case"]["account"] == case["account"]]
        return {"ok": not hit, "observed": hit[0]["observed"] if hit else None}
    if case["kind"] == "c07m":
        ok, sig, rv, lv = judge_method(case["method"], case["account"])
        return {"ok": ok, "signature": sig, "expected": rv, "observed": lv}
    ok, sig, exp, obs = judge_dispatch(case["bank_code"], case["account"], set(lib_methods()))
    return {"ok": ok, "signature": sig, "expected": exp, "observed": obs}


def main(tier: str) -> int:
    run = report.Run(PID, tier, "exploration", RULE)
    methods = lib_methods()
    shards = [("m", m, b, tier) for m in methods for b in bases_for(m)]
    if tier == "thorough":
        shards += [("p", m, pos, tier) for m, pos in bbk.SMALL_SUPPORT.items() if m in methods]
    codes = sorted({k[1] for k in lookup.by_key() if k[0] == "DE"})
    shards.append(("python -O", tier))
    shards.append(("f", tier))
    chunk = 120
    shards += [("d", codes[i:i + chunk], tier) for i in range(0, len(codes), chunk)]
    par.run_shards(run, shard, shards)
    used = sorted({lookup.german_method(c + "0" * 10) or "-" for c in codes})
    run.extra.update({
        "library_methods": methods, "reference_methods": sorted(bbk.METHODS),
        "methods_in_library_without_reference": sorted(set(methods) - set(bbk.METHODS)),
        "methods_used_by_registry_banks": used,
        "german_bank_codes": len(codes),
        "deviation_bound_completed": f"{3 if tier == 'thorough' else 2} positions x all digits per base",
    })
    run.assumptions += ["reference methods mc/ref/bbk.py (abstains for the omitted-sub-account variants "
                        "of 13/63/76 and remainder 10 of method 76)",
                        "bank -> method read from the tree's bank registry by mc/ref/reg.py"]
    return run.finish(replay)
