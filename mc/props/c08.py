"""C08 - generated IBANs carry exactly the supplied components, padded, never altered."""
from __future__ import annotations

import itertools

from .. import lib
from ..engine import par, report
from ..ref import gen, reg
from ..ref import iban as ri

PID = "C08"
RULE = ("for every country of the table (with and without published positions), the full product over "
        "the three IBAN.generate arguments of a per-field menu (empty; one character; exact width; "
        "width-1; width+1; width+2; combined bank+branch width; inner white-space; lower case; a "
        "character of the wrong class; a non-alphanumeric; a non-ASCII digit; thorough: + max filler, "
        "leading zeros, width+5), the same triples through BBAN.from_components + IBAN.from_bban, and "
        "the remaining component kinds one at a time; unknown / lower-case countries. Oracle R-GEN: "
        "valid IBAN whose BBAN equals the reference assembly, or a library error (the class "
        "specific to an over-long bank / branch / account code). A combined-width bank code "
        "together with a non-empty branch code is excluded. distinct = distinct argument tuples.")
DIG, UP = "0123456789", "ABCDEFGHIJKLMNOPQRSTUVWXYZ"


def field_class(c: reg.Country, comp: str) -> str:
    s = c.span(comp)
    if not s or not c.classes:
        return "n"
    ks = set(c.classes[s[0]:s[1]])
    return ks.pop() if len(ks) == 1 else "m"


def conforming(c: reg.Country, comp: str, n: int, salt: int) -> str:
    """n characters conforming to the field's classes (cyclic over positions), distinct-ish."""
    s = c.span(comp)
    out = []
    for i in range(n):
        k = c.classes[s[0] + min(i, s[1] - s[0] - 1)] if s and c.classes and s[1] > s[0] else "n"
        chars = reg.CLASS_CHARS[k]
        if k == "c":
            chars = DIG + UP if (i + salt) % 2 else UP + DIG
        out.append(chars[(i * 3 + salt + 1) % len(chars)])
    return "".join(out)


def menu(c: reg.Country, comp: str, salt: int, tier: str, other_w: int = 0) -> list[str]:
    s = c.span(comp)
    w = (s[1] - s[0]) if s else 0
    k = field_class(c, comp)
    items = ["", conforming(c, comp, 1, salt)]
    if w:
        items.append(conforming(c, comp, w, salt))
        if w > 1:
            items.append(conforming(c, comp, w - 1, salt))
    items += [conforming(c, comp, w + 1, salt), conforming(c, comp, w + 2, salt)]
    if w == 0:
        items += ["0", "000", " 0 0 "]  # zeros are characters too: nothing may be dropped silently
    if other_w:
        comb = conforming(c, comp, w, salt) + "".join(DIG[(i + salt) % 10] for i in range(other_w))
        items += [comb, comb + "9", comb + "12"]  # combined width, and one / two beyond it
        if w >= 2:
            items.append(comb[:w] + " " + comb[w:-1])   # raw length == combined width, one real char less
            items.append(comb[:w] + " " + comb[w:])     # a genuine combined code written with a blank
    # over-long AND carrying characters that are special to str.format / % / re: the error class of
    # the length defect is owed whatever the characters are
    z = conforming(c, comp, max(w, 1), salt + 2)
    items += [z + "{}", z + "{0}%s", z[:-1] + "{" + z[-1:] + "}", z + "\\1"]
    if w >= 3:
        y = conforming(c, comp, w - 2, salt + 3)  # white-space inside a value that also needs padding
        items.append(y[:1] + " " + y[1:])
        items.append(" " + y + "\t")
    if w >= 2:
        x = conforming(c, comp, w, salt + 1)
        items.append(x[:1] + " " + x[1:])
        items.append(x.lower() if x.lower() != x else x[:-1] + "a")
        items.append(x[:-1] + ("A" if k == "n" else "5" if k == "a" else "-"))
        items.append(x[:-1] + "-")
        items.append(x[:-1] + "٣")
    else:
        items += [" ", "a", "-", "٣"]
    if tier == "thorough":
        if w:
            items.append("".join(reg.CLASS_CHARS[kk][-1] for kk in (c.classes[s[0]:s[1]] if c.classes else "n" * w)))
            items.append("0" * w)
            if w > 2:
                items.append("00" + conforming(c, comp, w - 2, salt))
        items.append(conforming(c, comp, w + 5, salt))
        items.append("\t" + conforming(c, comp, max(w, 1), salt + 2) + "\n")
    return list(dict.fromkeys(items))


def call_generate(country, bank, account, branch):
    return lib.outcome(lambda: lib.IBAN.generate(country, bank, account, branch))


def call_components(country, values):
    return lib.outcome(lambda: lib.IBAN.from_bban(country, lib.BBAN.from_components(country, **values)))


def judge(country: str, values: dict, via: str):
    exp = gen.assemble(country, values)
    if exp[0] == "excluded":
        return "excluded", None, None, None
    if via == "generate":
        k, v = call_generate(country, values.get("bank_code", ""), values.get("account_code", ""),
                             values.get("branch_code", ""))
    else:
        k, v = call_components(country, values)
    if k == "foreign":
        return "bad", f"foreign-exception-escapes:{v}", exp, (k, v)
    if k == "ok":
        s = str(v)
        if exp[0] != "ok":
            return "bad", "returns-an-IBAN-although-a-component-does-not-fit", exp, s
        if s[4:] != exp[1] or s[:2] != country:
            return "bad", "components-not-at-their-positions", exp, s
        if not ri.accept(s) or str(v.bban) != exp[1]:
            return "bad", "returned-IBAN-not-valid", exp, s
        return "ok", None, exp, s
    if exp[0] == "ok":
        return "bad", f"raises-{v}-although-all-components-fit", exp, (k, v)
    if exp[1] != gen.ANY_ERROR and v not in exp[1]:
        return "bad", f"wrong-error-class:{v}-for-overlong-" + "+".join(
            sorted(x[7:-4].lower() for x in exp[1])), exp, (k, v)
    return "ok", None, exp, (k, v)


def runtime_shard(args):
    """Run-time update of the country table through registry.save (shared with C18): assembly,
    decomposition and generation follow the table in force, also for objects created earlier."""
    from . import c18
    from ..engine import sandbox
    part = par.Part()
    before = sandbox.deep_snapshot()
    part["evals"] += 40
    for i in range(40):
        part.seen.add(hash(("runtime", i)))
    for sig, exp, obs in c18.runtime_table_problems():
        part.violation(sig + " [run-time table update]", {"kind": "runtime-table"}, exp, obs)
    sandbox.assert_restored(before)
    part.stat("runtime_table_updates", 3)
    return part.done()


def shard(args):
    if args[0] == "runtime-table":
        return runtime_shard(args)
    if args[0] == "sequence":
        return sequence_shard(args)
    if args[0] == "interpreter":
        return par.in_interpreter(INTERPRETERS[args[1]], "mc.props.c08", "interpreter_child", (args[2], args[1]))
    country, tier = args
    part = par.Part()
    c = reg.countries().get(country)
    if c is None or not c.positions:
        # unknown country, lower-case country, or no published positions: library error
        for b, a, r in [("1", "2", ""), ("", "", ""), ("12345678", "1234567890", "123")]:
            for via in ("generate", "components"):
                vals = {"bank_code": b, "account_code": a, "branch_code": r}
                part.count((country, b, a, r, via))
                st, sig, exp, obs = judge(country, vals, via)
                if st == "bad":
                    part.violation(f"{sig} [country without positions / unknown]",
                                   {"kind": "c08", "country": country, "values": vals, "via": via}, exp, obs)
        part.stat("countries_without_positions_or_unknown")
        return part.done()
    bw, rw = gen.width(c, "bank_code"), gen.width(c, "branch_code")
    mb = menu(c, "bank_code", 0, tier, other_w=rw)
    ma = menu(c, "account_code", 4, tier)
    mr = menu(c, "branch_code", 7, tier)
    if rw:
        # an account code as long as branch + account together (a sort code written in front of it)
        ma = ma + [conforming(c, "branch_code", rw, 7) + conforming(c, "account_code", gen.width(c, "account_code"), 4)]
    for b, a, r in itertools.product(mb, ma, mr):
        vals = {"bank_code": b, "account_code": a, "branch_code": r}
        part.count((country, b, a, r))
        st, sig, exp, obs = judge(country, vals, "generate")
        part.stat("reference_" + (exp[0] if exp else "excluded"))
        if st == "bad":
            part.violation(sig, {"kind": "c08", "country": country, "values": vals, "via": "generate"},
                           exp, obs)
        if st != "excluded" and (b == mb[2 % len(mb)] or a == ma[2 % len(ma)] or r == ""):
            part["evals"] += 1
            st2, sig2, exp2, obs2 = judge(country, vals, "components")
            if st2 == "bad":
                part.violation(sig2 + " [from_components]", {"kind": "c08", "country": country,
                               "values": vals, "via": "components"}, exp2, obs2)
    # value relationships between the arguments: the same text for every component, the account equal
    # to the bank code, the branch equal to the bank code
    aw = gen.width(c, "account_code")
    same_rows = []
    for x in ("1", "12", mb[2] if bw else "7", conforming(c, "bank_code", max(1, min(bw or 1, aw or 1, rw or bw or 1)), 5)):
        same_rows += [(x, x, x if rw else ""), (x, x, ""), (x, ma[2] if aw else "", x if rw else "")]
    # the account written behind the (padded / unpadded) bank code, behind bank + branch, and the
    # bank code repeated in front of itself
    bfull = mb[2] if bw else ""
    afull = conforming(c, "account_code", aw, 4) if aw else ""
    rfull = conforming(c, "branch_code", rw, 7) if rw else ""
    for bcode in dict.fromkeys([bfull, bfull[1:] if len(bfull) > 1 else bfull]):
        padded = bcode.rjust(bw, "0")
        for acct in dict.fromkeys([bcode + afull, padded + afull, padded + rfull + afull, padded + afull[1:],
                                   padded + afull + "1", "0" * bw + afull, afull + padded]):
            same_rows.append((bcode, acct, rfull))
            same_rows.append((bcode, acct, ""))
        same_rows.append((bcode + bcode, afull, rfull))
    for b, a, r in dict.fromkeys(same_rows):
        vals = {"bank_code": b, "account_code": a, "branch_code": r}
        part.count((country, "equal-values", b, a, r))
        st, sig, exp, obs = judge(country, vals, "generate")
        if st == "bad":
            part.violation(sig + " [equal argument values]", {"kind": "c08", "country": country, "values": vals,
                                                             "via": "generate"}, exp, obs)
    # placeholder words and number-like spellings as a component value (one component at a time, the
    # others at exact width): they are characters like any others - never "no value"; and a bank code
    # in the shape of a BIC of this very country (a pasted BIC is not a bank code plus decoration)
    words = ["NONE", "None", "NULL", "null", "NAN", "nan", "N/A", "n/a", "TRUE", "FALSE", "INF", "-1", "+1", "1E5",
             "0X1F", "0", "00", "NIL", "UNDEFINED", "-", "?"]
    exact = {"bank_code": bfull, "account_code": afull, "branch_code": rfull}
    word_rows = []
    for comp_ in ("bank_code", "account_code", "branch_code"):
        if not gen.width(c, comp_) and comp_ != "branch_code":
            continue
        for w_ in words:
            word_rows.append(dict(exact, **{comp_: w_}))
    for tail in ("2A", "2AXXX", "M1GLS"):
        shaped = conforming(c, "bank_code", 4, 0) + country + tail
        word_rows.append(dict(exact, bank_code=shaped))
        word_rows.append(dict(exact, bank_code=shaped, branch_code=""))
        word_rows.append(dict(exact, bank_code=shaped.lower()))
    for vals in word_rows:
        part.count((country, "words", tuple(sorted(vals.items()))))
        for via in ("generate", "components"):
            st, sig, exp, obs = judge(country, vals, via)
            if st == "bad":
                part.violation(sig + " [placeholder word / BIC-shaped value]",
                               {"kind": "c08", "country": country, "values": vals, "via": via}, exp, obs)
    # remaining component kinds, one at a time, other fields exact width
    good = {"bank_code": mb[2] if bw else "", "account_code": ma[2],
            "branch_code": (mr[2] if rw else "")}
    for comp in c.positions:
        if comp in good or (comp == "national_checksum_digits"):
            continue
        for x in menu(c, comp, 2, tier):
            vals = dict(good)
            vals[comp] = x
            part.count((country, comp, x))
            st, sig, exp, obs = judge(country, vals, "components")
            part.stat("other_component_cases")
            if st == "bad":
                part.violation(sig + f" [{comp}]", {"kind": "c08", "country": country, "values": vals,
                                                   "via": "components"}, exp, obs)
    part.sample({"country": country, "bank_menu": mb, "account_menu": ma[:4], "branch_menu": mr[:4]})
    part.stat("countries_with_positions")
    return part.done()


def interpreter_child(arg):
    """Runs inside a brand-new interpreter started with other options (``-O``: asserts compiled
    away; ``-W error``: every warning is an exception): per country the exact-width, short,
    combined-width, over-long and lower-case / spaced forms, through both entry points."""
    tier, label = arg
    part = par.Part()
    table = reg.countries()
    for code in sorted(k for k, c in table.items() if c.positions):
        c = table[code]
        vals = exact_values(code)
        rows = [vals, {k: v[1:] if len(v) > 1 else v for k, v in vals.items()},
                {k: " " + v.lower() for k, v in vals.items()}]
        if vals["branch_code"]:
            rows.append({"bank_code": vals["bank_code"] + vals["branch_code"], "account_code": vals["account_code"],
                         "branch_code": ""})
        for comp in vals:
            rows.append(dict(vals, **{comp: vals[comp] + "9"}))
        for v in rows:
            for via in ("generate", "components"):
                part.count((label, code, via, tuple(sorted(v.items()))))
                st, sig, exp, obs = judge(code, v, via)
                if st == "bad":
                    part.violation(f"{sig} [{label}]", {"kind": "c08", "country": code, "values": v, "via": via,
                                                        "interpreter": label}, exp, obs)
    part.stat("interpreter_runs")
    return part.done()


INTERPRETERS = {"python -O": ["-O"], "python -W error": ["-W", "error"]}


def exact_values(code: str, salt: int = 0) -> dict:
    c = reg.countries()[code]
    vals = {}
    for comp, ss in (("bank_code", 0), ("account_code", 4), ("branch_code", 7)):
        w = gen.width(c, comp)
        vals[comp] = conforming(c, comp, w, ss + salt) if w else ""
    return vals


def sequence_shard(args):
    """All countries with positions generated one after the other in ONE process (sorted, reversed,
    and grouped by identical structure string): what is remembered from one country must not leak
    into the next (start from non-initial states)."""
    _, order, tier = args
    part = par.Part()
    table = reg.countries()
    codes = sorted(k for k, c in table.items() if c.positions)
    if order == "reversed":
        codes = codes[::-1]
    elif order == "by-structure":
        codes = sorted(codes, key=lambda k: (table[k].bban_spec, k))
    elif order == "by-structure-reversed":
        codes = sorted(codes, key=lambda k: (table[k].bban_spec, k), reverse=True)
    for rnd in range(2):
        for code in codes:
            vals = exact_values(code, rnd)
            short = {k: v[1:] if len(v) > 1 else v for k, v in vals.items()}
            for v in (vals, short):
                for via in ("generate", "components"):
                    part.count((order, rnd, code, via, tuple(sorted(v.items()))))
                    st, sig, exp, obs = judge(code, v, via)
                    if st == "bad":
                        part.violation(f"{sig} [in a sequence over all countries, order {order}]",
                                       {"kind": "c08seq", "country": code, "values": v, "via": via,
                                        "order": order}, exp, obs)
    part.stat("country_sequences")
    part.sample({"sequence_order": order, "first_countries": codes[:5]})
    return part.done()


def replay(case: dict) -> dict:
    if case.get("kind") == "runtime-table":
        from . import c18
        probs = c18.runtime_table_problems()
        return {"ok": not probs, "observed": [(p[0], p[2]) for p in probs]}
    if case.get("interpreter"):
        label = case["interpreter"]
        part = par.in_interpreter(INTERPRETERS[label], "mc.props.c08", "interpreter_child", ("quick", label))
        hit = [v for v in part["violations"] if v["case"]["country"] == case["country"]
               and v["case"]["values"] == case["values"] and v["case"]["via"] == case["via"]]
        return {"ok": not hit, "observed": hit[0]["observed"] if hit else None, "interpreter": label}
    st, sig, exp, obs = judge(case["country"], case["values"], case["via"])
    return {"ok": st != "bad", "signature": sig, "expected": exp, "observed": obs}


def main(tier: str) -> int:
    run = report.Run(PID, tier, "exploration", RULE)
    countries = sorted(reg.countries())
    extra = ["XX", "de", "D", "", "DEU", "ZZ"]
    seqs = [("sequence", o, tier) for o in ("sorted", "reversed", "by-structure", "by-structure-reversed")]
    seqs += [("interpreter", label, tier) for label in INTERPRETERS]
    par.run_shards(run, shard, [("runtime-table", tier)] + [(c, tier) for c in countries + extra] + seqs)
    run.extra.update({"countries": len(countries), "pseudo_countries": extra})
    run.assumptions += ["reference assembly mc/ref/gen.py over the tree's position table; national "
                        "digits from mc/ref/nat.py",
                        "a combined-width bank code together with a non-empty branch code is excluded "
                        "(the statement does not say which wins)"]
    return run.finish(replay)
