"""C09 - computed national check digits validate; parsing and rebuilding round-trips."""
from __future__ import annotations

import itertools
import random

from .. import lib
from ..engine import bases, par, report
from ..ref import gen, lookup, nat, reg
from ..ref import iban as ri
from . import c06, c08

PID = "C09"
RULE = ("(i) for the 19 computing countries: every body of the C06 family (bases x single "
        "substitutions outside the check field) decomposed into bank / branch / account and given to "
        "IBAN.generate, every successful case of the C08 menu product, and seeded IBAN.random draws in "
        "both registry modes: the result must pass validate(validate_bban=True) and the reference "
        "rule R-NAT. (ii) for every country with published positions: nationally valid IBANs built by "
        "the references (C06 bodies with reference digits; DE with listed banks x reference-accepted "
        "accounts and unlisted bank codes), decomposed through the eight accessors and rebuilt with "
        "BBAN.from_components: equal at every position covered by a component. distinct = distinct "
        "(country, input) cases.")
COMPS = reg.COMPONENTS


def validate_nat(obj):
    k, v = lib.outcome(obj.validate, True)
    return k == "ok", (k, v)


def judge_built(country: str, obj):
    s = str(obj)
    ok, obs = validate_nat(obj)
    if not ok:
        return False, "built-IBAN-fails-national-validation", obs
    if not ri.accept(s):
        return False, "built-IBAN-not-valid", s
    if nat.accept(country, s[4:]) is False:
        return False, "built-IBAN-violates-published-rule", s
    return True, None, s


def judge_generate(country: str, bank: str, account: str, branch: str):
    k, v = lib.outcome(lambda: lib.IBAN.generate(country, bank, account, branch))
    if k == "foreign":
        return "bad", f"foreign-exception-escapes:{v}", (k, v)
    if k == "lib":
        return "raised", None, (k, v)
    ok, sig, obs = judge_built(country, v)
    return ("ok" if ok else "bad"), sig, obs


def judge_generate_as(country: str, spelled: str, bank: str, account: str, branch: str):
    k, v = lib.outcome(lambda: lib.IBAN.generate(spelled, bank, account, branch))
    if k == "foreign":
        return "bad", f"foreign-exception-escapes:{v}", (k, v)
    if k == "lib":
        return "raised", None, (k, v)
    ok, sig, obs = judge_built(country, v)
    return ("ok" if ok else "bad"), sig, obs


def judge_random(country: str, seed: int, use_registry: bool):
    k, v = lib.outcome(lambda: lib.IBAN.random(country, random=random.Random(seed),
                                                use_registry=use_registry))
    if k == "foreign":
        return "bad", f"foreign-exception-escapes:{v}", (k, v)
    if k == "lib":
        return "raised", None, (k, v)
    ok, sig, obs = judge_built(country, v)
    return ("ok" if ok else "bad"), sig, obs


def judge_rebuild(country: str, bban: str):
    c = reg.countries()[country]
    text = bases.iban_text(country, bban)
    k, obj = lib.outcome(lib.IBAN, text, validate_bban=True)
    if k != "ok":
        return "skipped", None, (k, obj)
    comps = {name: getattr(obj, name) for name in COMPS}
    k, rebuilt = lib.outcome(lambda: str(lib.BBAN.from_components(country, **comps)))
    if k != "ok":
        return "bad", f"rebuild-raises:{rebuilt}", {"components": comps, "outcome": (k, rebuilt)}
    cov = c.covered_positions()
    if len(rebuilt) != len(bban) or any(rebuilt[i] != bban[i] for i in cov):
        return "bad", "rebuilt-BBAN-differs", {"components": comps, "rebuilt": rebuilt, "original": bban}
    return "ok", None, rebuilt


def computing_shard(args):
    _, country, tier, filler = args
    part = par.Part()
    c = reg.countries()[country]

    def comp(b, name):
        return c.component(b, name)

    raised = 0
    for body in c06.bodies(country, tier, [filler]):
        bank, branch, account = comp(body, "bank_code"), comp(body, "branch_code"), comp(body, "account_code")
        part.count((country, bank, branch, account))
        st, sig, obs = judge_generate(country, bank, account, branch)
        if st == "raised":
            raised += 1
        elif st == "bad":
            part.violation(f"{country}:{sig}", {"kind": "c09gen", "country": country, "bank": bank,
                                                "account": account, "branch": branch}, "passes", obs)
        # (ii') every value of the check field that the LIBRARY accepts nationally must round-trip
        # (the statement quantifies over nationally valid IBANs as the library judges them)
        if filler == "distinct":
            cl = bases.classes_of(c)
            cps = c06.check_positions(country)
            for vals in itertools.product(*[reg.CLASS_CHARS[cl[p]] for p in cps]):
                chars = list(body)
                for p, v in zip(cps, vals):
                    chars[p] = v
                b = "".join(chars)
                part["evals"] += 1
                st, sig, obs = judge_rebuild(country, b)
                if st != "skipped":
                    part.seen.add(hash(("lib-valid", b)))
                    part.stat("library_accepted_check_values")
                if st == "bad":
                    part.violation(f"{country}:{sig}", {"kind": "c09rebuild", "country": country, "bban": b},
                                   "rebuilt == original", obs)
        # (ii) the same body with reference digits, parsed and rebuilt
        nb = nat.with_check(country, body)
        if nb:
            part["evals"] += 1
            st, sig, obs = judge_rebuild(country, nb)
            part.stat("rebuild_" + st)
            if st == "bad":
                part.violation(f"{country}:{sig}", {"kind": "c09rebuild", "country": country, "bban": nb},
                               "rebuilt == original", obs)
    part.stat("generate_raised_library_error", raised)
    if filler == "distinct":
        # successful cases of the C08 menu product
        mb = c08.menu(c, "bank_code", 0, tier, other_w=gen.width(c, "branch_code"))
        ma = c08.menu(c, "account_code", 4, tier)
        mr = c08.menu(c, "branch_code", 7, tier)
        for b, a, r in itertools.product(mb, ma, mr):
            part.count((country, "menu", b, a, r))
            st, sig, obs = judge_generate(country, b, a, r)
            part.stat("menu_" + st)
            if st == "bad":
                part.violation(f"{country}:{sig}", {"kind": "c09gen", "country": country, "bank": b,
                                                    "account": a, "branch": r}, "passes", obs)
        # draws with pinned components - every non-empty subset of {bank, branch, account, national
        # check digits} the country has, each pinned at full width (the pinned check digits are
        # those of the filler, i.e. usually NOT the computed ones): whatever is returned must still
        # validate nationally
        pinnable = [n for n in ("account_code", "bank_code", "branch_code", "national_checksum_digits")
                    if c.span(n)]
        for r in range(1, len(pinnable) + 1):
            for sub in itertools.combinations(pinnable, r):
                for filler_ in ("max", "min", "distinct", "short"):
                    if filler_ == "short":
                        # pins shorter than their fields (they are padded): the digits must be computed
                        # over what ends up in the BBAN
                        pins = {n: bases.bban(c, "distinct")[c.span(n)[0]:c.span(n)[1]][-3:].lstrip("0") or "1"
                                for n in sub if n != "national_checksum_digits"}
                        if not pins:
                            continue
                    else:
                        pins = {n: bases.bban(c, filler_)[c.span(n)[0]:c.span(n)[1]] for n in sub}
                    name = "+".join(sub)
                    nseeds = (6 if tier == "quick" else 40) if r == 1 else (2 if tier == "quick" else 8)
                    for seed in range(nseeds):
                        for use_reg in (True, False):
                            part.count((country, "random-pinned", name, filler_, seed, use_reg))
                            k, v = lib.outcome(lambda: lib.IBAN.random(country, random=random.Random(seed),
                                                                        use_registry=use_reg, **pins))
                            if k == "ok":
                                ok, sig, obs = judge_built(country, v)
                                if not ok:
                                    part.violation(f"{country}:random-with-pinned-{name}:{sig}",
                                                   {"kind": "c09rand", "country": country, "seed": seed,
                                                    "use_registry": use_reg, "pins": pins}, "passes", obs)
                            elif k == "foreign":
                                part.violation(f"{country}:random-with-pinned-{name}:foreign-exception:{v}",
                                               {"kind": "c09rand", "country": country, "seed": seed,
                                                "use_registry": use_reg, "pins": pins}, "passes", (k, v))
        for seed in range(40 if tier == "quick" else 400):
            for use_reg in (True, False):
                part.count((country, "random", seed, use_reg))
                st, sig, obs = judge_random(country, seed, use_reg)
                part.stat("random_" + st)
                if st == "bad":
                    part.violation(f"{country}:random:{sig}", {"kind": "c09rand", "country": country,
                                   "seed": seed, "use_registry": use_reg}, "passes", obs)
    part.sample({"country": country, "filler": filler,
                 "example": bases.iban_text(country, nat.with_check(country, bases.bban(c, filler)) or bases.bban(c, filler))})
    part.stat("computing_country_x_filler")
    return part.done()


def _reregistered_child(country: str):
    """In a forked child: replace the country's algorithm through the public decorator
    ``checksum.register`` by a subclass that computes OTHER digits (validate = "computed equals
    given"), then build IBANs every way the library offers and validate them nationally: computing
    and validating must still agree, i.e. both follow the algorithm table in force."""
    import random as _random
    key = f"{country}:default"
    old = lib.checksum.algorithms[key]
    c = reg.countries()[country]
    sp = c.span("national_checksum_digits")
    cls_chars = [reg.CLASS_CHARS[k] for k in bases.classes_of(c)[sp[0]:sp[1]]]

    def shifted(digits):
        return "".join(a[(a.index(ch) + 1) % len(a)] if ch in a else ch for ch, a in zip(digits, cls_chars))

    class Shifted(type(old)):
        name = "default"

        def compute(self, components):
            return shifted(super().compute(components))

        def validate(self, components, expected):
            return self.compute(components) == expected
    lib.checksum.register(country)(Shifted)
    body = bases.bban(c, "distinct")
    comps = {n: c.component(body, n) for n in ("bank_code", "branch_code", "account_code") if c.span(n)}
    out = []
    builders = {
        "generate": lambda: lib.IBAN.generate(country, comps.get("bank_code", ""), comps.get("account_code", ""),
                                              comps.get("branch_code", "")),
        "from_components": lambda: lib.IBAN.from_bban(country, lib.BBAN.from_components(country, **comps)),
        "random": lambda: lib.IBAN.random(country, random=_random.Random(5)),
        "random-no-registry": lambda: lib.IBAN.random(country, random=_random.Random(6), use_registry=False),
    }
    for name, f in builders.items():
        k, v = lib.outcome(f)
        if k == "foreign":
            out.append((name, "foreign-exception-escapes:" + str(v), None))
        elif k == "ok":
            ok, obs = validate_nat(v)
            if not ok:
                out.append((name, "built-IBAN-fails-national-validation", obs))
    return out


def reregistered_shard(args):
    _, country, tier = args
    part = par.Part()
    part["evals"] += 4
    part.seen.add(hash(("reregistered", country)))
    for name, sig, obs in par.in_child(_reregistered_child, country):
        part.violation(f"{country}:{name}:{sig} [after the country's algorithm was replaced through checksum.register]",
                       {"kind": "c09rereg", "country": country, "builder": name}, "passes", obs)
    part.stat("countries_with_replaced_algorithm")
    return part.done()


def rebuild_shard(args):
    _, country, tier = args
    part = par.Part()
    c = reg.countries()[country]
    cl = bases.classes_of(c)
    fillers = ["distinct", "seeded", "max", "letters"] if tier == "quick" else bases.FILLERS
    for f in dict.fromkeys(fillers):
        base = bases.bban(c, f)
        variants = [base]
        for p in range(len(base)):
            chars = reg.CLASS_CHARS[cl[p]]
            alts = chars if tier == "thorough" else (chars[0], chars[-1], chars[len(chars) // 2])
            for ch in alts:
                if ch != base[p]:
                    variants.append(base[:p] + ch + base[p + 1:])
        for b in variants:
            if country in nat.COUNTRIES:
                b = nat.with_check(country, b)
                if b is None or nat.accept(country, b) is not True:
                    part.stat("not_nationally_valid_skipped")
                    continue
            elif country == "DE" and lookup.national_verdict("DE", b) is not True:
                part.stat("not_nationally_valid_skipped")
                continue
            part.count((country, b))
            st, sig, obs = judge_rebuild(country, b)
            part.stat("rebuild_" + st)
            if st == "bad":
                part.violation(f"{country}:{sig}", {"kind": "c09rebuild", "country": country, "bban": b},
                               "rebuilt == original", obs)
    if country == "DE":
        from . import c07
        pl = c07.pools()
        codes = sorted({k[1] for k in lookup.by_key() if k[0] == "DE"})
        step = 1 if tier == "thorough" else 7
        for code in codes[::step]:
            m = lookup.german_method(code + "0" * 10)
            acc = pl.get(m, ([], []))[0] or ["0000000000"]
            for a in acc[:2]:
                b = code + a
                if lookup.national_verdict("DE", b) is not True:
                    continue
                part.count(("DE", b))
                st, sig, obs = judge_rebuild("DE", b)
                part.stat("rebuild_" + st)
                if st == "bad":
                    part.violation(f"DE:{sig}", {"kind": "c09rebuild", "country": "DE", "bban": b},
                                   "rebuilt == original", obs)
    part.stat("rebuild_countries")
    part.sample({"country": country, "rebuild_example": bases.bban(c, "distinct")})
    return part.done()


def bank_shard(args):
    """Registry-driven: for every listed bank of a computing country a BBAN around its bank code,
    with every value of the check field; whatever the library accepts nationally must round-trip
    (a bank entry can steer national validation, e.g. through a stray checksum_algo)."""
    from . import c12
    _, country, tier = args
    part = par.Part()
    c = reg.countries()[country]
    cl = bases.classes_of(c)
    cps = c06.check_positions(country)
    keys = sorted(k[1] for k in lookup.by_key() if k[0] == country)
    if tier == "quick" and len(keys) > 400:
        # every key still gets the reference digits and two neighbours; the full sweep of the check
        # field is made for every 5th key
        full = set(keys[::5])
    else:
        full = set(keys)
    for code in keys:
        text = c12.build_iban(country, code)
        if text is None:
            continue
        body = text[4:]
        good = nat.with_check(country, body) or body
        if code in full:
            values = list(itertools.product(*[reg.CLASS_CHARS[cl[p]] for p in cps]))
        else:
            g = tuple(good[p] for p in cps)
            a = reg.CLASS_CHARS[cl[cps[-1]]]
            values = [g, g[:-1] + (a[(a.index(g[-1]) + 1) % len(a)],), g[:-1] + (a[(a.index(g[-1]) + 2) % len(a)],)]
        for vals in values:
            chars = list(good)
            for p, v in zip(cps, vals):
                chars[p] = v
            b = "".join(chars)
            part["evals"] += 1
            st, sig, obs = judge_rebuild(country, b)
            if st != "skipped":
                part.seen.add(hash(("bank", country, b)))
                part.stat("library_accepted_for_listed_banks")
            if st == "bad":
                part.violation(f"{country}:{sig} [listed bank]", {"kind": "c09rebuild", "country": country,
                                                                "bban": b}, "rebuilt == original", obs)
    part.stat("listed_bank_keys", len(keys))
    return part.done()


def sequence_shard(args):
    """All computing countries generated in ONE process from components cut out of one common digit
    string (so that the component values of different countries concatenate to the same text), in
    two orders: remembered check digits must not leak from one country into another."""
    _, order, tier = args
    part = par.Part()
    table = reg.countries()
    comp = sorted(k for k in nat.COMPUTING if k in table)
    if order == "reversed":
        comp = comp[::-1]
    strings = ["1234567890" * 4, "9081726354" * 4, "0" * 40, "5" * 40]
    for D in strings:
        for country in comp:
            c = table[country]
            bw, rw, aw = (gen.width(c, x) for x in ("bank_code", "branch_code", "account_code"))
            bank, branch, account = D[:bw], D[bw:bw + rw], D[bw + rw:bw + rw + aw]
            if country in ("IT", "SM", "FR", "MC", "MK"):
                pass  # digits are admissible in their 'c' fields too
            for odd in (country.lower(), " " + country, country + " "):
                # whatever spelling of the country code the library accepts, what it builds validates
                part.count((order, D[:10], odd))
                st, sig, obs = judge_generate_as(country, odd, bank, account, branch)
                if st == "bad":
                    part.violation(f"{country}:{sig} [country code spelled {odd!r}]",
                                   {"kind": "c09seq", "order": order, "country": odd, "bank": bank,
                                    "account": account, "branch": branch}, "passes or raises", obs)
            part.count((order, D[:10], country))
            st, sig, obs = judge_generate(country, bank, account, branch)
            if st == "bad":
                part.violation(f"{country}:{sig} [in a sequence over all computing countries]",
                               {"kind": "c09seq", "order": order, "country": country, "bank": bank,
                                "account": account, "branch": branch}, "passes", obs)
            k, v = lib.outcome(lambda: lib.IBAN.random(country, random=random.Random(11)))
            part["evals"] += 1
            if k == "ok":
                ok, sig, obs = judge_built(country, v)
                if not ok:
                    part.violation(f"{country}:random:{sig} [in a sequence over all computing countries]",
                                   {"kind": "c09seq", "order": order, "country": country}, "passes", obs)
    part.stat("computing_country_sequences")
    part.sample({"sequence_order": order, "countries": comp[:6]})
    return part.done()


def shard(args):
    if args[0] == "seq":
        return sequence_shard(args)
    if args[0] == "bank":
        return bank_shard(args)
    if args[0] == "rereg":
        return reregistered_shard(args)
    return computing_shard(args) if args[0] == "comp" else rebuild_shard(args)


def replay(case: dict) -> dict:
    if case.get("kind") == "c09rereg":
        hit = [x for x in par.in_child(_reregistered_child, case["country"]) if x[0] == case["builder"]]
        return {"ok": not hit, "observed": hit[:2]}
    if case["kind"] == "c09seq":
        return {"ok": True, "observed": "sequence case: replayed through its shard"}
    if case["kind"] == "c09gen":
        st, sig, obs = judge_generate(case["country"], case["bank"], case["account"], case["branch"])
    elif case["kind"] == "c09rand" and case.get("pins"):
        k, v = lib.outcome(lambda: lib.IBAN.random(case["country"], random=random.Random(case["seed"]),
                                                    use_registry=case["use_registry"], **case["pins"]))
        if k == "ok":
            ok, sig, obs = judge_built(case["country"], v)
            st = "ok" if ok else "bad"
        else:
            st, sig, obs = ("bad" if k == "foreign" else "raised"), None, (k, v)
    elif case["kind"] == "c09rand":
        st, sig, obs = judge_random(case["country"], case["seed"], case["use_registry"])
    else:
        st, sig, obs = judge_rebuild(case["country"], case["bban"])
    return {"ok": st != "bad", "signature": sig, "observed": obs}


def main(tier: str) -> int:
    run = report.Run(PID, tier, "exploration", RULE)
    table = reg.countries()
    comp = sorted(k for k in nat.COMPUTING if k in table)
    shards = [("comp", c, tier, f) for c in comp for f in c06.accepted_fillers(c, tier)]
    shards += [("rebuild", c, tier) for c in sorted(table) if table[c].positions]
    shards += [("seq", o, tier) for o in ("sorted", "reversed")]
    shards += [("bank", c, tier) for c in comp]
    shards += [("rereg", c, tier) for c in comp if f"{c}:default" in lib.checksum.algorithms]
    par.run_shards(run, shard, shards)
    run.extra.update({"computing_countries": comp,
                      "countries_with_positions": sum(1 for c in table.values() if c.positions),
                      "filler_positions_exempt": {k: sorted(set(range(c.bban_length)) - c.covered_positions())
                                                  for k, c in table.items()
                                                  if c.positions and set(range(c.bban_length)) - c.covered_positions()}})
    run.assumptions += ["mc/ref/nat.py decides which bodies are nationally valid and supplies digits",
                        "positions covered by no component (reserved filler) are exempt from (ii)"]
    return run.finish(replay)
