"""C10 - white-space and letter case never matter; formatting round-trips."""
from __future__ import annotations

import itertools

from .. import lib
from ..engine import bases, par, report
from ..ref import bic as rb
from ..ref import iban as ri
from ..ref import reg
from . import c04

PID = "C10"
from ..ref import nat as _nat  # noqa: E402
NATIONAL = set(_nat.COUNTRIES) | {"DE"}
WS = [" ", "\t", "\n", "\r\n", "\u00a0"]
assert len(set(WS)) == 5
RULE = ("texts: per country a valid IBAN (two fillers) and one invalid text per defect class (check "
        "digits, length, illegal character, unknown country); valid and invalid BIC bases. Variants: "
        "every gap x {space, tab, LF, CRLF, NBSP} inserted once and as a run of two, leading/trailing "
        "runs, every pair of gaps x two white-space kinds (thorough: all 25 combinations); case: "
        "all-lower, each single letter lowered, alternating, and all 2^n case patterns for texts with "
        "<= 11 letters. Oracle: same accept/reject as the canonical text; accepted variants are == and "
        "hash-equal to the canonical object; compact has no white-space / lower case; formatted equals "
        "the reference grouping; parsing compact and formatted gives an equal object. Components "
        "passed to IBAN.generate / BBAN.from_components in five spacing / case styles (all at once and "
        "one at a time) give the outcome of the compact upper-case spelling. distinct = "
        "distinct variant texts.")


def ws_variants(text: str, tier: str):
    n = len(text)
    for p in range(n + 1):
        for w in WS:
            yield text[:p] + w + text[p:]
            yield text[:p] + w + w + text[p:]
    for w in WS:
        yield w * 3 + text + w * 2
    # every raw length up to 90: trailing, leading and inner runs, and every gap widened at once
    for k in range(1, 91 - len(text)):
        yield text + " " * k
        yield " " * k + text
        yield text[:4] + "\t" * k + text[4:]
    for w in WS:
        for rep in (1, 2, 3):
            yield (w * rep).join(text)
    kinds = list(itertools.product(WS, WS)) if tier == "thorough" else [(" ", " "), ("\t", "\n")]
    for p, q in itertools.combinations(range(n + 1), 2):
        for a, b in kinds:
            yield text[:p] + a + text[p:q] + b + text[q:]


def case_variants(text: str):
    letters = [i for i, ch in enumerate(text) if ch.isalpha()]
    yield text.lower()
    yield text.upper()
    for i in letters:
        yield text[:i] + text[i].lower() + text[i + 1:]
    yield "".join(ch.lower() if k % 2 else ch for k, ch in enumerate(text))
    yield "".join(ch.lower() if k % 2 == 0 else ch for k, ch in enumerate(text))
    if len(letters) <= 11:
        for mask in range(1 << len(letters)):
            chars = list(text)
            for k, i in enumerate(letters):
                if mask >> k & 1:
                    chars[i] = chars[i].lower()
            yield "".join(chars)
    # the printed form (blocks of four) with further white-space around / inside it
    f4 = ri.formatted(text)
    for w in WS:
        yield f4 + w
        yield w + f4
        yield f4.replace(" ", w, 1)
        yield f4[::-1].replace(" ", w, 1)[::-1]
        yield f4.lower() + w
    # case and white-space together
    yield " ".join(text.lower())
    yield "\t" + ri.formatted(text).lower() + "\n"


def parse(kind: str, text: str):
    cls = lib.IBAN if kind == "iban" else lib.BIC
    return lib.outcome(cls, text)


def judge(kind: str, canonical: str, variant: str):
    """-> list of (signature, expected, observed)"""
    k0, o0 = parse(kind, canonical)
    k1, o1 = parse(kind, variant)
    probs = []
    # the formatted / compact forms are defined for every object, validated or not
    cls = lib.IBAN if kind == "iban" else lib.BIC
    ku, ou = lib.outcome(cls, variant, allow_invalid=True)
    if ku == "ok":
        comp_ref = ri.normalise(variant)
        if str(ou) != comp_ref or ou.compact != comp_ref:
            probs.append((f"{kind}:compact-of-unvalidated-object-wrong", comp_ref, str(ou)))
        if kind == "iban" or len(comp_ref) in (8, 11):
            want_u = ri.formatted(comp_ref) if kind == "iban" else rb.formatted(comp_ref)
            kf, fu = lib.outcome(lambda: ou.formatted)
            if kf == "ok" and fu != want_u:
                probs.append((f"{kind}:formatted-of-unvalidated-object-wrong", want_u, fu))
    if kind == "iban" and canonical[:2] in NATIONAL:
        n0 = lib.iban_parse(canonical, True)
        n1 = lib.iban_parse(variant, True)
        if "foreign" not in (n0[0], n1[0]) and (n0[0] == "ok") != (n1[0] == "ok"):
            probs.append(("iban:variant-outcome-differs-with-national-validation", n0, n1))
    if kind == "bic":
        # ... and when strict SWIFT compliance is requested
        s0 = lib.bic_parse(canonical, True)
        s1 = lib.bic_parse(variant, True)
        if "foreign" not in (s0[0], s1[0]) and ((s0[0] == "ok") != (s1[0] == "ok") or (s0[0] == "ok" and s0[1] != s1[1])):
            probs.append(("bic:variant-outcome-differs-in-strict-mode", s0, s1))
    if "foreign" in (k0, k1):
        return probs  # C05's subject
    if (k0 == "ok") != (k1 == "ok"):
        probs.append((f"{kind}:variant-outcome-differs", (k0, str(o0)), (k1, str(o1))))
        return probs
    if k1 != "ok":
        return probs
    if not (o1 == o0 and o0 == o1 and hash(o1) == hash(o0)):
        probs.append((f"{kind}:variant-object-not-equal", str(o0), str(o1)))
    comp = o1.compact
    if comp != str(o1) or any(ch.isspace() for ch in comp) or any("a" <= ch <= "z" for ch in comp):
        probs.append((f"{kind}:compact-has-whitespace-or-lower-case", "canonical compact", comp))
    want = ri.formatted(comp) if kind == "iban" else rb.formatted(comp)
    if o1.formatted != want:
        probs.append((f"{kind}:formatted-wrong", want, o1.formatted))
    cls = type(o1)
    for name, text in (("formatted", o1.formatted), ("compact", comp)):
        k2, o2 = lib.outcome(cls, text)
        if k2 != "ok" or not (o2 == o1):
            probs.append((f"{kind}:parse-{name}-not-equal", str(o1), (k2, str(o2))))
    return probs


def texts_for_country(country: str, tier: str):
    c = reg.countries()[country]
    out = []
    for f in (["distinct", "letters"] if tier == "quick" else bases.FILLERS):
        out.append(bases.iban_text(country, bases.bban(c, f)))
    v = out[0]
    bad_cd = v[:2] + f"{(int(v[2:4]) + 1) % 100:02d}" + v[4:]
    out += [bad_cd, v[:-1], v[:-1] + "-", "XX" + v[2:]]
    groups = [v[i:i + 4] for i in range(0, len(v), 4)]
    out += ["-".join(groups), ".".join(groups), "/".join(groups[:3]) + "-" + "".join(groups[3:])]
    if country in NATIONAL:
        from . import c05
        nv = c05.natvalid_base(country)
        if nv:
            out.insert(1, bases.iban_text(country, nv))
    # texts that carry an invisible mark at an edge (all of them are rejected - in every spacing)
    out += ["\ufeff" + v, v + "\u200e", "\u202a" + v + "\u202c"]
    return list(dict.fromkeys(out))


def fragment_problems(text: str):
    """Every prefix of a text as an unvalidated object: compact and formatted forms are defined for
    every object (groups of four separated by single blanks, nothing in front or behind)."""
    probs = []
    for n in range(0, len(text) + 1):
        t = text[:n]
        k, o = lib.outcome(lib.IBAN, t + " ", allow_invalid=True)
        if k != "ok":
            probs.append(("iban:unvalidated-fragment-cannot-be-built", t, (k, o)))
            continue
        kf, f = lib.outcome(lambda: o.formatted)
        if (kf, f) != ("ok", ri.formatted(t)):
            probs.append(("iban:formatted-of-a-fragment-wrong", ri.formatted(t), (kf, f)))
            break
    return probs


def bban_problems(country: str, body: str):
    """BBAN objects built directly: the same value however the text is spaced or cased."""
    probs = []
    k0, ref = lib.outcome(lib.BBAN, country, body)
    if k0 != "ok":
        return [("bban:constructor-raises", "object", (k0, ref))]
    variants = [body.lower(), " ".join(body), body[:3] + "\t" + body[3:].lower(), " " + body + "\n",
                ri.formatted(body), ri.formatted(body).lower() + "\u00a0"]
    for v in variants:
        k, o = lib.outcome(lib.BBAN, country, v)
        if k != "ok":
            probs.append(("bban:variant-raises", str(ref), (v, k, o)))
            continue
        if not (o == ref) or str(o) != body or o.compact != body or hash(o) != hash(ref):
            probs.append(("bban:variant-object-not-equal", body, (v, str(o))))
        elif any(getattr(o, n) != getattr(ref, n) for n in ("bank_code", "account_code", "branch_code")):
            probs.append(("bban:variant-components-differ", body, v))
    return probs


def component_problems(country: str, body: str):
    """Components handed to IBAN.generate / BBAN.from_components are texts too: however they are
    spaced or cased, the outcome is that of the compact upper-case spelling."""
    c = reg.countries()[country]
    comps = {n: c.component(body, n) for n in ("bank_code", "branch_code", "account_code") if c.span(n)}
    if "bank_code" not in comps or "account_code" not in comps:
        return []

    def spell(kw):
        a = lib.outcome(lambda: str(lib.IBAN.generate(country, **kw)))
        b = lib.outcome(lambda: str(lib.BBAN.from_components(country, **kw)))
        return a, b

    want = spell(comps)
    probs = []
    # a value that is nothing but white-space is no value: the same outcome as "" (also for the
    # branch code of a country that has no branch field)
    for n in ("bank_code", "branch_code", "account_code"):
        empty = spell(dict(comps, **{n: ""}))
        for blank in (" ", "\t", "\n", "\u00a0", "  \r\n"):
            got = spell(dict(comps, **{n: blank}))
            if got != empty:
                probs.append((f"components:blank-only-{n}-is-not-treated-like-an-empty-one", empty, (blank, got)))
                break
    styles = [str.lower, lambda t: " ".join(t), lambda t: t[:1] + "\t" + t[1:].lower(),
              lambda t: "\u00a0" + t.lower() + "\n", lambda t: t.swapcase()]
    for si, st in enumerate(styles):
        for which in [tuple(comps)] + [(n,) for n in comps]:
            kw = {n: (st(v) if n in which else v) for n, v in comps.items()}
            if kw == comps:
                continue
            got = spell(kw)
            if got != want:
                probs.append((f"components:{'generate' if got[0] != want[0] else 'from_components'}-outcome-"
                              f"depends-on-spelling", want, (kw, got)))
    return probs


def shard(args):
    kind, key, tier = args
    part = par.Part()
    if kind == "iban":
        cobj = reg.countries()[key]
        for f in ("distinct", "letters"):
            body = bases.bban(cobj, f)
            if cobj.positions:
                part["evals"] += 30
                part.seen.add(hash(("components", key, body)))
                for sig, exp, obs in component_problems(key, body):
                    part.violation(sig, {"kind": "c10comp", "country": key, "bban": body}, exp, obs)
            part["evals"] += 7
            part.seen.add(hash(("bban", key, body)))
            for sig, exp, obs in bban_problems(key, body):
                part.violation(sig, {"kind": "c10bban", "country": key, "bban": body}, exp, obs)
    texts = texts_for_country(key, tier) if kind == "iban" else [key]
    if kind == "iban":
        part["evals"] += len(texts[0]) + 1
        part.seen.add(hash(("fragments", texts[0])))
        for sig, exp, obs in fragment_problems(texts[0]):
            part.violation(sig, {"kind": "c10frag", "text": texts[0]}, exp, obs)
    for ti, canonical in enumerate(texts):
        gens = [case_variants(canonical)]
        if ti < 3 or tier == "thorough":
            gens.append(ws_variants(canonical, tier))
        else:
            gens.append(itertools.islice(ws_variants(canonical, "quick"), 0, 10 * (len(canonical) + 1)))
        part.count((kind, canonical), nontrivial=False)
        for gen_ in gens:
            for v in gen_:
                part.count((kind, v), nontrivial=(v != canonical), foreign=(kind == "bic"))
                for sig, exp, obs in judge(kind, canonical, v):
                    part.violation(sig, {"kind": "c10", "type": kind, "canonical": canonical, "variant": v},
                                   exp, obs)
        part.stat(f"{kind}_texts")
        part.stat(f"{kind}_accepted_canonicals", int(parse(kind, canonical)[0] == "ok"))
    part.sample({"type": kind, "canonical": texts[0], "variant": texts[0][:3] + "\t" + texts[0][3:].lower()})
    return part.done()


def replay(case: dict) -> dict:
    if case.get("kind") == "c10frag":
        probs = fragment_problems(case["text"])
        return {"ok": not probs, "observed": [(p[0], p[2]) for p in probs]}
    if case.get("kind") == "c10comp":
        probs = component_problems(case["country"], case["bban"])
        return {"ok": not probs, "observed": [(p[0], p[2]) for p in probs]}
    if case.get("kind") == "c10bban":
        probs = bban_problems(case["country"], case["bban"])
        return {"ok": not probs, "observed": [(p[0], p[2]) for p in probs]}
    probs = judge(case["type"], case["canonical"], case["variant"])
    return {"ok": not probs, "observed": [(p[0], p[2]) for p in probs], "expected": [p[1] for p in probs]}


def main(tier: str) -> int:
    run = report.Run(PID, tier, "exploration", RULE)
    countries = sorted(reg.countries())
    bics = c04.bases() + ["GENODEM1GL", "GENODEM1GLSX", "GENO-EM1", "GENOXXM1", "1234DEM1"]
    shards = [("iban", c, tier) for c in countries] + [("bic", b, tier) for b in bics]
    par.run_shards(run, shard, shards)
    run.extra.update({"countries": len(countries), "bic_texts": len(bics), "whitespace_kinds":
                      [repr(w) for w in WS]})
    run.assumptions += ["the property speaks of ASCII letters and space/tab/newline/NBSP only; other "
                        "Unicode is C01's alphabet"]
    return run.finish(replay)
