"""C11 - an IBAN or BIC decomposes losslessly into its published fields."""
from __future__ import annotations

from .. import lib
from ..engine import alphabet, bases, families, par, report
from ..ref import bic as rb
from ..ref import iban as ri
from ..ref import reg
from . import c04

PID = "C11"
RULE = ("every IBAN the library accepts among: all bases under all fillers for every country, every "
        "single conforming substitution of them (check digits recomputed), and the length / "
        "two-character-prefix families of C01 (rechecked members land in other countries), single edits "
        "with look-alike characters and lower-case / printed spellings; every "
        "accepted BIC of the C04 families. Oracle: country+check digits+BBAN == compact; each of the "
        "eight accessors equals the BBAN slice at R-REG's position or '' ; ranges disjoint and inside "
        "the BBAN; IBAN-level == BBAN-level accessors; IBAN.from_bban(country, bban) == iban; BIC parts "
        "are the slices 0:4, 4:6, 6:8, 8:11 and concatenate to compact. distinct = distinct accepted "
        "objects checked.")
COMPS = reg.COMPONENTS


def check_iban(text: str):
    """-> None if not accepted, else list of (signature, expected, observed)"""
    k, o = lib.outcome(lib.IBAN, text)
    if k != "ok":
        return None
    return check_iban_object(o)


def check_iban_object(o):
    probs = []
    for name in ("bic", "bank", "bank_name"):  # registry lookups before the fields are read
        lib.outcome(lambda: getattr(o, name))
    s = str(o)
    country = s[:2]
    c = reg.countries().get(country)
    if c is None:
        return [("accepted-IBAN-of-unknown-country", "reject", s)]
    bban = s[4:]
    if o.country_code + o.checksum_digits + str(o.bban) != s or o.compact != s:
        probs.append(("parts-do-not-concatenate", s, (o.country_code, o.checksum_digits, str(o.bban))))
    if o.country_code != country or o.checksum_digits != s[2:4] or str(o.bban) != bban:
        probs.append(("head-fields-wrong", (country, s[2:4], bban),
                      (o.country_code, o.checksum_digits, str(o.bban))))
    if getattr(o.bban, "country_code", None) != country:
        probs.append(("bban-country-wrong", country, getattr(o.bban, "country_code", None)))
    spans = []
    for name in COMPS:
        exp = c.component(bban, name)
        got_i, got_b = getattr(o, name), getattr(o.bban, name)
        if got_i != exp:
            probs.append((f"accessor-differs-from-published-position:{name}", exp, got_i))
        if got_i != got_b:
            probs.append((f"iban-and-bban-accessor-disagree:{name}", got_b, got_i))
        sp = c.span(name)
        if sp:
            spans.append((sp, name))
    for (a, na), (b, nb) in ((x, y) for i, x in enumerate(spans) for y in spans[i + 1:]):
        if a[0] < b[1] and b[0] < a[1]:
            probs.append((f"fields-overlap:{na}/{nb}", "disjoint", (a, b)))
    for sp, name in spans:
        if not (0 <= sp[0] < sp[1] <= len(bban)):
            probs.append((f"field-outside-bban:{name}", f"within 0..{len(bban)}", sp))
    k2, o2 = lib.outcome(lib.IBAN.from_bban, o.country_code, o.bban)
    if k2 != "ok" or not (o2 == o) or str(o2) != s:
        probs.append(("from_bban-does-not-reassemble", s, (k2, str(o2))))
    k3, o3 = lib.outcome(lib.IBAN.from_bban, o.country_code, str(o.bban))
    if k3 != "ok" or str(o3) != s:
        probs.append(("from_bban(str)-does-not-reassemble", s, (k3, str(o3))))
    return probs


def check_bic(text: str):
    k, o = lib.outcome(lib.BIC, text)
    if k != "ok":
        return None
    s = str(o)
    probs = []
    parts = (o.bank_code, o.country_code, o.location_code, o.branch_code)
    if "".join(parts) != s or o.compact != s:
        probs.append(("bic-parts-do-not-concatenate", s, parts))
    exp = (s[0:4], s[4:6], s[6:8], s[8:11])
    if parts != exp:
        probs.append(("bic-part-not-at-position", exp, parts))
    return probs


def iban_shard(args):
    _, country, tier = args
    part = par.Part()
    c = reg.countries()[country]
    cl = bases.classes_of(c)
    naccepted = 0

    def run_text(text, how):
        nonlocal naccepted
        part["evals"] += 1
        probs = check_iban(text)
        if probs is None:
            return
        naccepted += 1
        (part.foreign.add if text[:2] != country else lambda t: part.seen.add(hash(t)))(text)
        for sig, exp, obs in probs:
            part.violation(sig, {"kind": "c11", "type": "iban", "text": text, "how": how}, exp, obs)

    fillers = bases.FILLERS
    for f, base in bases.base_ibans(country, fillers):
        run_text(base, f"base {f}")
        body = base[4:]
        alts_all = tier == "thorough" or f in ("distinct", "seeded")
        for p in range(len(body)):
            chars = reg.CLASS_CHARS[cl[p]]
            for ch in (chars if alts_all else (chars[0], chars[-1])):
                if ch != body[p]:
                    b = body[:p] + ch + body[p + 1:]
                    run_text(bases.iban_text(country, b), f"conforming substitution at {p} of {f}")
        if f == "distinct":
            # every check-digit pair for a residue-complete family: whatever the library accepts
            # (including a non-canonical spelling, should it accept one) must re-assemble to itself
            from .c02 import residue_family
            fam_members, _ = residue_family(country, body)
            for b in fam_members:
                for d in range(100):
                    run_text(country + f"{d:02d}" + b, "check-pair over residue family")
            # the same BBAN text read under every partner country first (per-text memoisation
            # would hand this country the partner's layout)
            for pc in bases.partners(country, body):
                run_text(bases.iban_text(pc, body), f"partner {pc} first")
                run_text(base, f"after partner {pc}")
            # the very same object, re-read after its BBAN *object* was handed to from_bban of
            # every partner country (objects must not be altered by later calls)
            k0, obj = lib.outcome(lib.IBAN, base)
            if k0 == "ok":
                before = [getattr(obj, n) for n in COMPS] + [obj.bban.country_code, str(obj.bban)]
                for pc in bases.partners(country):
                    kp, built = lib.outcome(lib.IBAN.from_bban, pc, obj.bban)
                    lib.outcome(lib.IBAN.from_bban, pc, obj.bban, allow_invalid=True)
                    # further ways of handing this object's BBAN (or the object itself) to the
                    # library under another country
                    lib.outcome(lib.IBAN.from_bban, pc, obj.bban, validate_bban=True)
                    lib.outcome(lib.IBAN.from_bban, pc, obj.bban, True, True)
                    lib.outcome(lib.BBAN, pc, obj.bban)
                    lib.outcome(lambda: lib.BBAN(pc, obj.bban).bank_code)
                    lib.outcome(lib.IBAN, obj)
                    lib.outcome(lib.IBAN, obj, validate_bban=True)
                    part["evals"] += 8
                    if kp == "ok":
                        # the IBAN assembled for the partner from this country's BBAN object
                        # decomposes by the partner's published layout
                        naccepted += 1
                        for sig, exp, obs in check_iban_object(built):
                            part.violation(sig + " [built from another country's BBAN object]",
                                           {"kind": "c11obj", "text": str(built), "from_country": country,
                                            "source": base}, exp, obs)
                after = [getattr(obj, n) for n in COMPS] + [obj.bban.country_code, str(obj.bban)]
                if after == before:
                    # ... and the object must still be judged as before
                    kv, vv = lib.outcome(lambda: (obj.is_valid, lib.outcome(obj.validate)[0]))
                    if (kv, vv) != ("ok", (True, "ok")):
                        part.violation("object-judged-differently-after-its-BBAN-was-used-for-another-country",
                                       {"kind": "c11", "type": "iban", "text": base, "how": "same object re-validated "
                                        "after BBAN(partner, obj.bban) / from_bban(partner, obj.bban, ...)"},
                                       (True, "ok"), (kv, vv))
                if after != before:
                    part.violation("object-altered-by-from_bban-of-another-country",
                                   {"kind": "c11", "type": "iban", "text": base, "how": "same object re-read "
                                    "after IBAN.from_bban(partner, obj.bban)"}, before, after)
        if f in ("distinct", "digits"):
            # non-conforming single edits (look-alike letters for digits, lower case, separators): most
            # are rejected - whatever IS accepted must still decompose into its own compact form
            for fam, text in families.single_edits(base, ["0", "O", "o", "I", "l", "1", "A", "a", "Z", "9", " ", "-"]):
                run_text(text, fam)
            for text in (base.lower(), " ".join(base[i:i + 4] for i in range(0, len(base), 4)).lower(),
                         base[:4] + base[4:].lower(), base.swapcase()):
                run_text(text, "spelling")
        if f == "distinct":
            for lab, b, _ in families.small_field_bodies(c, body, include_national=True):
                run_text(bases.iban_text(country, b), lab)
        if f in ("distinct", "max"):
            for fam, text in families.iban_lengths(base):
                run_text(text, fam)
            for fam, text in families.iban_prefixes(base):
                run_text(text, fam)
    part.stat("accepted_ibans_checked", naccepted)
    part.sample({"country": country, "text": bases.base_ibans(country, ["distinct"])[0][1],
                 "positions": {k: list(v) for k, v in c.positions.items()}})
    part.stat("countries")
    return part.done()


def bic_shard(args):
    _, base, tier = args
    part = par.Part()
    W = alphabet.wide(thorough=(tier == "thorough"))
    n = 0
    for fam, text in [("base", base)] + list(c04.gen(base, tier, W)):
        part["evals"] += 1
        probs = check_bic(text)
        if probs is None:
            continue
        n += 1
        part.foreign.add("BIC:" + text)
        for sig, exp, obs in probs:
            part.violation(sig, {"kind": "c11", "type": "bic", "text": text, "how": fam}, exp, obs)
    part.stat("accepted_bics_checked", n)
    return part.done()


def runtime_shard(args):
    """Run-time update of the country table through registry.save (shared with C18): assembly,
    decomposition and generation follow the table in force, also for objects created earlier."""
    from . import c18
    from ..engine import sandbox
    part = par.Part()
    before = sandbox.deep_snapshot()
    part["evals"] += 40
    for i in range(40):
        part.seen.add(hash(("runtime", i)))
    for sig, exp, obs in c18.runtime_table_problems():
        part.violation(sig + " [run-time table update]", {"kind": "runtime-table"}, exp, obs)
    sandbox.assert_restored(before)
    part.stat("runtime_table_updates", 3)
    return part.done()


def shard(args):
    if args[0] == "runtime-table":
        return runtime_shard(args)
    return iban_shard(args) if args[0] == "iban" else bic_shard(args)


def replay(case: dict) -> dict:
    if case.get("kind") == "runtime-table":
        from . import c18
        probs = c18.runtime_table_problems()
        return {"ok": not probs, "observed": [(p[0], p[2]) for p in probs]}
    if case.get("kind") == "c11obj":
        src = lib.IBAN(case["source"])
        built = lib.IBAN.from_bban(case["text"][:2], src.bban)
        probs = check_iban_object(built)
        return {"ok": not probs, "observed": [(p[0], p[2]) for p in probs]}
    probs = check_iban(case["text"]) if case["type"] == "iban" else check_bic(case["text"])
    return {"ok": not probs, "observed": [(p[0], p[2]) for p in probs or []],
            "expected": [p[1] for p in probs or []]}


def main(tier: str) -> int:
    run = report.Run(PID, tier, "exploration", RULE)
    countries = sorted(reg.countries())
    shards = [("iban", c, tier) for c in countries] + [("bic", b, tier) for b in c04.bases()]
    par.run_shards(run, shard, [("runtime-table", tier)] + shards)
    run.extra.update({"countries": len(countries), "bic_bases": len(c04.bases())})
    run.assumptions += ["published positions = the tree's merged table as read by mc/ref/reg.py; the "
                        "'distinct' filler makes a shifted or off-by-one slice visible"]
    return run.finish(replay)
