"""C12 - bank-code <-> BIC lookups agree with the bundled registry and with each other."""
from __future__ import annotations

import itertools

from .. import lib
from ..engine import bases, par, report, sandbox
from ..ref import iban as ri
from ..ref import bic as rb
from ..ref import lookup, reg

PID = "C12"
RULE = ("(a) bundled registry, exhaustively: every (country, bank code) key, every BIC, unlisted "
        "one-edit neighbours of keys, and an IBAN built by the references around every key (and "
        "around unlisted neighbours); (b) any registry contents: all ordered bank lists of <= 3 "
        "(thorough: plus a cross-section of 4) entries over the entry alphabet {bank code K1, K2, ''} x "
        "{primary, not} x {BIC '', A8, A8+XXX, A8+123, B8, B8+XXX}, installed through the library's own "
        "index-building statements. Oracle R-LOOKUP: candidates == non-empty BICs of the key, primary "
        "first, list order otherwise; chosen satisfies the selection predicate; unlisted / only empty "
        "BICs -> InvalidBankCode; candidates list the code among domestic_bank_codes and exist; "
        "iban.bank / bic / names == lookup of its own fields or None. distinct = distinct (list, query) "
        "cases.")


# ------------------------------------------------------------------ library observations
def lib_candidates(country, code):
    k, v = lib.outcome(lambda: [str(b) for b in lib.BIC.candidates_from_bank_code(country, code)])
    return (k, v)


def lib_chosen(country, code):
    k, v = lib.outcome(lambda: str(lib.BIC.from_bank_code(country, code)))
    return (k, v)


def check_key(index: dict, country: str, code: str):
    """All C12 obligations for one (country, bank code) pair against ``index`` (reference)."""
    probs = []
    ref = lookup.candidates_in(index, country, code)
    k, got = lib_candidates(country, code)
    malformed = [b for b in (ref or []) if not rb.accept(b)]
    if malformed:
        # the registry lists a text that is no BIC: no lookup may hand it out as a BIC object (a
        # library error is fine; C17 owns the bundled data, this is about what the classes return)
        k2, chosen = lib_chosen(country, code)
        if k == "ok" and any(b in malformed for b in got):
            probs.append(("malformed-registry-BIC-handed-out-as-a-BIC-object", "library error or omitted", (k, got)))
        if k2 == "ok" and chosen in malformed:
            probs.append(("malformed-registry-BIC-chosen-as-a-BIC-object", "library error or omitted", (k2, chosen)))
        if k == "foreign" or k2 == "foreign":
            probs.append(("foreign-exception-for-a-malformed-registry-BIC", "library error", ((k, got), (k2, chosen))))
        return probs
    if ref is None:
        if (k, got) != ("lib", "InvalidBankCode"):
            probs.append(("unlisted-pair-does-not-raise-InvalidBankCode", "InvalidBankCode", (k, got)))
    elif k != "ok" or got != ref:
        probs.append(("candidates-differ-from-registry", ref, (k, got)))
    k2, chosen = lib_chosen(country, code)
    if not ref:
        if (k2, chosen) != ("lib", "InvalidBankCode"):
            probs.append(("from_bank_code-without-candidates-does-not-raise-InvalidBankCode",
                          "InvalidBankCode", (k2, chosen)))
    else:
        if k2 != "ok" or not lookup.selection_ok(ref, chosen):
            probs.append(("chosen-BIC-violates-selection-rule", {"candidates": ref}, (k2, chosen)))
        for b in dict.fromkeys(ref):
            ko, o = lib.outcome(lib.BIC, b)
            if ko != "ok":
                probs.append(("candidate-is-not-a-valid-BIC", b, (ko, o)))
                continue
            kc, inv = lib.outcome(lambda: (o.domestic_bank_codes, o.exists))
            if kc != "ok":
                probs.append(("reverse-lookup-of-a-candidate-raises", {"bic": b, "code": code}, (kc, inv)))
                continue
            codes, exists = inv
            if code not in codes or not exists:
                probs.append(("candidate-does-not-invert", {"bic": b, "code": code},
                              {"domestic_bank_codes": codes, "exists": exists}))
    return probs


def check_bic(bic_index: dict, bic: str):
    probs = []
    ko, o = lib.outcome(lib.BIC, bic, allow_invalid=True)
    if ko != "ok":
        return [("BIC-object-cannot-be-created", bic, (ko, o))]
    es = bic_index.get(bic, [])
    for attr, field in (("domestic_bank_codes", "bank_code"), ("bank_names", "name"),
                        ("bank_short_names", "short_name")):
        exp = sorted({e[field] for e in es})
        kg, got = lib.outcome(lambda: getattr(o, attr))
        if kg != "ok" or got != exp:
            probs.append((f"{attr}-differ-from-registry", exp, (kg, got) if kg != "ok" else got))
    ke, ex = lib.outcome(lambda: o.exists)
    if (ke, ex) != ("ok", bool(es)):
        probs.append(("exists-wrong", bool(es), (ke, ex)))
    return probs


def build_iban(country: str, key: str, filler: str = "distinct"):
    """An IBAN whose bank-identifying fields spell ``key`` (None if the key does not fit)."""
    c = reg.countries().get(country)
    if c is None or not c.positions:
        return None
    spans = [c.span(comp) for comp in c.lookup_components]
    if any(s is None for s in spans) or sum(s[1] - s[0] for s in spans) != len(key):
        return None
    body = list(bases.bban(c, filler))
    i = 0
    for s in spans:
        body[s[0]:s[1]] = key[i:i + s[1] - s[0]]
        i += s[1] - s[0]
    body = "".join(body)
    if not c.matches(body):
        return None
    return bases.iban_text(country, body)


def generated_iban_problems(index: dict, country: str, key: str):
    """IBAN.generate fed with the listed code (as the bank code, or as the combined bank+branch code
    where the lookup key spans both): the result must carry that code and find the bank again."""
    c = reg.countries().get(country)
    if c is None or not c.positions or (country, key) not in index:
        return []
    comps = c.lookup_components
    if comps not in (["bank_code"], ["bank_code", "branch_code"]):
        return []  # e.g. PL: the key contains the computed national check digit
    aw = c.span("account_code")
    if not aw or not c.classes:
        return []
    acct = "".join(reg.CLASS_CHARS[k][1] for k in c.classes[aw[0]:aw[1]])
    k, o = lib.outcome(lambda: lib.IBAN.generate(country, key, acct))
    if k == "lib":
        return []  # e.g. a field of letters the menu account does not satisfy: not this check's subject
    if k != "ok":
        return [("generate-around-listed-bank-raises", "IBAN", (k, o))]
    got_key = c.lookup_key(str(o)[4:])
    if got_key != key:
        return [("generated-IBAN-does-not-carry-the-listed-code", key, (str(o), got_key))]
    kb, bank = lib.outcome(lambda: o.bank)
    if kb != "ok" or bank != index[(country, key)][0]:
        return [("bank-not-found-again-from-generated-IBAN", index[(country, key)][0], (kb, bank))]
    return []


def check_iban(index: dict, country: str, key: str):
    text = build_iban(country, key)
    if text is None:
        return None
    ko, o = lib.outcome(lib.IBAN, text)
    if ko != "ok":
        return [("IBAN-around-key-not-accepted", text, (ko, o))]
    probs = generated_iban_problems(index, country, key)
    es = index.get((country, key))
    exp_bank = es[0] if es else None
    kk, got_bank = lib.outcome(lambda: o.bank)
    if kk != "ok":
        return [("iban.bank-raises", "entry or None", (kk, got_bank))]
    if got_bank != exp_bank:
        probs.append(("iban.bank-differs", exp_bank, got_bank))
    exp_names = (exp_bank["name"], exp_bank["short_name"]) if exp_bank else (None, None)
    kn, got_names = lib.outcome(lambda: (o.bank_name, o.bank_short_name))
    if kn != "ok":
        return probs + [("iban.bank_name-raises", exp_names, (kn, got_names))]
    if got_names != exp_names:
        probs.append(("iban.bank_name-differs", exp_names, got_names))
    k2, chosen = lib_chosen(country, key)
    kb, got_bic = lib.outcome(lambda: o.bic)
    if kb != "ok":
        probs.append(("iban.bic-raises", "BIC or None", (kb, got_bic)))
        return probs
    if k2 == "ok":
        if got_bic is None or str(got_bic) != chosen:
            probs.append(("iban.bic-differs-from-lookup", chosen, None if got_bic is None else str(got_bic)))
    elif got_bic is not None:
        probs.append(("iban.bic-not-None-for-unlisted-bank", None, str(got_bic)))
    if es:
        # objects that skipped validation (too long, too short behind the bank fields, wrong check
        # digits): the bank-identifying fields are all there, so the lookups answer as for the valid text
        c = reg.countries()[country]
        end_of_key = 4 + max(c.span(comp)[1] for comp in c.lookup_components)
        for how, t in (("too long", text + "99"), ("too short", text[:max(end_of_key, len(text) - 2)]),
                       ("wrong check digits", text[:2] + ("00" if text[2:4] != "00" else "01") + text[4:])):
            kq, q = lib.outcome(lib.IBAN, t, allow_invalid=True)
            if kq != "ok":
                probs.append((f"unvalidated-object-cannot-be-built [{how}]", "object", (kq, q)))
                continue
            kq2, seen = lib.outcome(lambda: (q.bank, None if q.bic is None else str(q.bic), q.bank_name))
            want = (got_bank, None if got_bic is None else str(got_bic), exp_names[0])
            if (kq2, seen) != ("ok", want):
                probs.append((f"lookups-of-an-unvalidated-object-differ [{how}]", want, (kq2, seen)))
    kx, both = lib.outcome(lambda: (o.bban.bank, str(o.bban.bic)))
    if kx != "ok":
        return probs + [("bban.bank/bic-raises", "values", (kx, both))]
    if (both[0] != got_bank) or (both[1] != str(got_bic)):
        probs.append(("iban-and-bban-lookups-disagree", (got_bank, str(got_bic)),
                      (o.bban.bank, str(o.bban.bic))))
    return probs


def neighbours(key: str, tier: str):
    pos = range(len(key)) if tier == "thorough" else (0, len(key) - 1)
    for p in pos:
        for ch in ("0", "9", "A", "Z") if tier == "quick" else "0123456789AZ":
            if ch != key[p]:
                yield key[:p] + ch + key[p + 1:]


# ------------------------------------------------------------------ (a) bundled registry
def bundled_shard(args):
    _, country, tier = args
    part = par.Part()
    index, bic_index = lookup.by_key(), lookup.by_bic()
    keys = sorted(k[1] for k in index if k[0] == country)
    built = 0
    for key in keys:
        part.count(("key", country, key))
        for sig, exp, obs in check_key(index, country, key):
            part.violation(sig, {"kind": "c12key", "country": country, "code": key}, exp, obs)
        r = check_iban(index, country, key)
        if r is None:
            part.stat("keys_without_buildable_iban")
        else:
            built += 1
            part["evals"] += 1
            for sig, exp, obs in r:
                part.violation(sig, {"kind": "c12iban", "country": country, "code": key}, exp, obs)
        for nb in neighbours(key, tier):
            if (country, nb) in index:
                continue
            part.count(("key", country, nb))
            part.stat("unlisted_neighbours")
            for sig, exp, obs in check_key(index, country, nb):
                part.violation(sig + " [unlisted neighbour]", {"kind": "c12key", "country": country,
                                                               "code": nb}, exp, obs)
            r = check_iban(index, country, nb)
            if r:
                for sig, exp, obs in r:
                    part.violation(sig + " [unlisted neighbour]", {"kind": "c12iban", "country": country,
                                                                   "code": nb}, exp, obs)
    # pairs that differ from a listed one only by case or white-space are NOT listed
    for key in keys[:: max(1, len(keys) // 40)]:
        for cc2, k2 in ((country[:1], country[1:] + key), (country + key[:1], key[1:]), ("", country + key),
                        (country + key, ""),
                        (country.lower(), key), (country, key.lower()), (" " + country, key),
                        (country, key[:1] + " " + key[1:]), (country, key + "\n"), (country + " ", key)):
            if (cc2, k2) in index or (cc2, k2) == (country, key):
                continue
            part.count(("key", cc2, k2))
            part.stat("differently_spelled_pairs")
            for sig, exp, obs in check_key(index, cc2, k2):
                part.violation(sig + " [differently spelled pair]", {"kind": "c12key", "country": cc2,
                                                                    "code": k2}, exp, obs)
    bics = sorted(b for b, es in bic_index.items() if any(e.get("country_code") == country for e in es))
    for b in bics:
        part.count(("bic", b), foreign=True)
        for sig, exp, obs in check_bic(bic_index, b):
            part.violation(sig, {"kind": "c12bic", "bic": b}, exp, obs)
    part.stat("keys", len(keys))
    part.stat("ibans_built_around_keys", built)
    part.stat("bics", len(bics))
    if keys:
        part.sample({"country": country, "key": keys[0], "candidates": lookup.candidates(country, keys[0]),
                     "iban": build_iban(country, keys[0])})
    return part.done()


# ------------------------------------------------------------------ (b) synthetic registries
K1, K2, K3 = "10000000", "20000000", "30000000"
BICS = ["", "AAAADEAA", "AAAADEAAXXX", "AAAADEAA123", "BBBBDEBB", "BBBBDEBBXXX"]


def entry_alphabet():
    out = []
    for code in (K1, K2, ""):
        for prim in (True, False):
            for b in BICS:
                out.append({"country_code": "DE", "bank_code": code, "primary": prim, "bic": b,
                            "name": f"N{code[:1]}{int(prim)}{b[-3:]}", "short_name": f"S{code[:1]}{b[:1]}"})
    # ... and a text that is no BIC at all (unknown country code), under the first key only
    for prim in (True, False):
        out.append({"country_code": "DE", "bank_code": K1, "primary": prim, "bic": "GENOXXM1",
                    "name": f"M{int(prim)}", "short_name": "SM"})
    return out


def check_synthetic(banks: list):
    probs = []
    with sandbox.bank_list([dict(e) for e in banks]):
        index = lookup.index_by_key(banks)
        bic_index = lookup.index_by_bic(banks)
        for code in (K1, K2, K3, ""):
            for sig, exp, obs in check_key(index, "DE", code):
                probs.append((sig, {"code": code, "expected": exp}, obs))
        for b in BICS[1:]:
            for sig, exp, obs in check_bic(bic_index, b):
                probs.append((sig, {"bic": b, "expected": exp}, obs))
        for code in (K1, K3):
            for sig, exp, obs in check_iban(index, "DE", code) or []:
                probs.append((sig, {"iban_for": code, "expected": exp}, obs))
    return probs


def synthetic_shard(args):
    _, first, tier = args
    part = par.Part()
    alpha = entry_alphabet()
    lists = [[alpha[first]]]
    lists += [[alpha[first], alpha[j]] for j in range(len(alpha))]
    lists += [[alpha[first], alpha[j], alpha[k]] for j in range(len(alpha)) for k in range(len(alpha))]
    if tier == "thorough":
        core = [i for i, e in enumerate(alpha) if e["bank_code"] == K1]
        lists += [[alpha[first], alpha[j], alpha[k], alpha[m]] for j in core for k in core for m in core]
    for banks in lists:
        part.count(tuple((e["bank_code"], e["primary"], e["bic"]) for e in banks))
        part["evals"] += 10
        for sig, exp, obs in check_synthetic(banks):
            part.violation(sig + " [synthetic registry]", {"kind": "c12syn", "banks": banks}, exp, obs)
    part.stat("synthetic_registries", len(lists))
    if first == 1:
        part.sample({"synthetic_registry": lists[40]})
    return part.done()


def multi_component_registries(country: str, tier: str):
    """Synthetic registries for a country whose bank-identifying key spans SEVERAL components (PL,
    SI): entries filed under the joined key, under each component alone, under the components in
    reverse order, under a sibling key (same first component) and under a shortened key; all
    registries of one or two such entries (thorough: three)."""
    c = reg.countries()[country]
    spans = [c.span(comp) for comp in c.lookup_components]
    body = bases.bban(c, "distinct")
    parts = [body[s0:s1] for s0, s1 in spans]
    full = "".join(parts)
    last = parts[-1]
    sibling_part = last[:-1] + ("1" if last[-1] != "1" else "2")
    sibling = "".join(parts[:-1]) + sibling_part
    keys = list(dict.fromkeys([full, parts[0], parts[-1], sibling, "".join(reversed(parts)), full[:-1]]))
    bics = ["AAAA%sAA" % country, "BBBB%sBBXXX" % country, "CCCC%sCC123" % country, "", "DDDD%sDD" % country,
            "EEEE%sEE" % country]
    entries = [{"country_code": country, "bank_code": k, "bic": bics[i % len(bics)], "primary": i % 2 == 0,
                "name": f"N{i}", "short_name": f"S{i}"} for i, k in enumerate(keys)]
    regs = [[e] for e in entries] + [[a, b] for a in entries for b in entries if a is not b]
    if tier == "thorough":
        regs += [[a, b, d] for a in entries for b in entries for d in entries if len({id(a), id(b), id(d)}) == 3]
    return regs, [full, sibling], keys


def multi_component_shard(args):
    _, country, tier = args
    part = par.Part()
    regs, probe_keys, keys = multi_component_registries(country, tier)
    for banks in regs:
        part.count((country,) + tuple((e["bank_code"], e["bic"]) for e in banks))
        part["evals"] += 8
        with sandbox.bank_list([dict(e) for e in banks]):
            index = lookup.index_by_key(banks)
            probs = []
            for k in keys:
                probs += [(sig, {"code": k, "expected": exp}, obs) for sig, exp, obs in check_key(index, country, k)]
            for k in probe_keys:
                probs += [(sig, {"iban_for": k, "expected": exp}, obs)
                          for sig, exp, obs in (check_iban(index, country, k) or [])]
        for sig, exp, obs in probs:
            part.violation(sig + " [synthetic registry, key of several components]",
                           {"kind": "c12multi", "country": country, "banks": banks}, exp, obs)
    part.stat("synthetic_registries_multi_component", len(regs))
    part.sample({"country": country, "lookup_components": reg.countries()[country].lookup_components,
                 "synthetic_registry": regs[len(regs) // 2]})
    return part.done()


def refresh_shard(args):
    """Run-time update of the bank registry: the bundled list plus new entries is saved and the
    library's own index-building statements are run AGAIN (the indexes of the old list exist at that
    moment).  Every obligation is then checked against the updated list: a second BIC for a listed
    key, a new key in a listed country, the first bank of a country without banks, a listed BIC with
    one more bank code, and an entry placed in FRONT of the old list."""
    _, tier = args
    part = par.Part()
    before = sandbox.deep_snapshot()
    old = reg.bank_list()

    def e(cc, code, bic, name, primary=False):
        return {"country_code": cc, "bank_code": code, "bic": bic, "name": name, "short_name": name,
                "primary": primary}
    first_de = next(x for x in old if x["country_code"] == "DE" and x["bic"])
    no_banks = next((cc for cc, co in sorted(reg.countries().items())
                     if cc not in lookup.by_country() and co.positions and co.lookup_components == ["bank_code"]
                     and co.classes and set(co.classes[co.span("bank_code")[0]:co.span("bank_code")[1]]) == {"n"}), None)
    additions = [e("DE", first_de["bank_code"], "ZZZZDEZZ", "second BIC of a listed key"),
                 e("DE", "99999999", "YYYYDEYYXXX", "new key in a listed country"),
                 e("DE", "99999998", first_de["bic"], "listed BIC, one more code")]
    if no_banks:
        w = reg.countries()[no_banks].span("bank_code")
        additions.append(e(no_banks, "7" * (w[1] - w[0]), "XXXX" + no_banks + "XX", "first bank of its country"))
    for label, banks in (("appended", old + additions), ("put in front", additions + old)):
        with sandbox.bank_list_refreshed([dict(x) for x in banks]):
            index, bic_index = lookup.index_by_key(banks), lookup.index_by_bic(banks)
            for a in additions:
                part.count(("refresh", label, a["country_code"], a["bank_code"]))
                part["evals"] += 3
                probs = list(check_key(index, a["country_code"], a["bank_code"]))
                if a["bic"]:
                    probs += check_bic(bic_index, a["bic"])
                probs += check_iban(index, a["country_code"], a["bank_code"]) or []
                k, v = lib.outcome(lambda: [x for x in lib.registry.get("country").get(a["country_code"], [])
                                            if x.get("bank_code") == a["bank_code"]])
                if k != "ok" or not v:
                    probs.append(("new-entry-missing-from-the-country-index", a, (k, v)))
                for sig, exp, obs in probs:
                    part.violation(f"{sig} [after a run-time update of the bank list, new entries {label}]",
                                   {"kind": "c12refresh", "entry": a, "placement": label}, exp, obs)
    try:
        sandbox.assert_restored(before)
    except report.HarnessError:
        # putting the earlier registry objects back did not give the earlier state: the refresh wrote
        # into the index objects built at import instead of building new ones
        part.violation("refresh-writes-into-the-indexes-built-earlier [after a run-time update of the bank list]",
                       {"kind": "c12refresh", "entry": additions[0], "placement": "restore"},
                       "earlier index objects untouched", "state after restoring them differs from the state before")
    part.stat("runtime_bank_list_updates", 2)
    part.sample({"runtime_update": [a["name"] for a in additions]})
    return part.done()


def foreign_shard(args):
    """For every country of the IBAN table: bank codes listed for OTHER countries (same lookup-field
    width) are unlisted here - an IBAN of this country carrying such a code has no bank and no BIC
    unless the pair itself is listed."""
    _, country, tier = args
    part = par.Part()
    index = lookup.by_key()
    c = reg.countries()[country]
    if not c.positions:
        return part.done()
    spans = [c.span(comp) for comp in c.lookup_components]
    if any(s is None for s in spans):
        return part.done()
    width = sum(s[1] - s[0] for s in spans)
    by_cc: dict = {}
    for (cc, code) in index:
        if cc != country and len(code) == width:
            by_cc.setdefault(cc, []).append(code)
    for cc in sorted(by_cc):
        codes = sorted(by_cc[cc])
        for code in codes[:: max(1, len(codes) // (6 if tier == "quick" else 60))]:
            if build_iban(country, code) is None:
                continue
            part.count(("foreign-key", country, cc, code))
            for sig, exp, obs in check_key(index, country, code):
                part.violation(sig + " [code listed for another country]", {"kind": "c12key", "country": country,
                                                                            "code": code}, exp, obs)
            for sig, exp, obs in check_iban(index, country, code) or []:
                part.violation(sig + " [code listed for another country]", {"kind": "c12iban", "country": country,
                                                                            "code": code}, exp, obs)
    part.stat("countries_probed_with_foreign_codes")
    return part.done()


def shard(args):
    if args[0] == "bundled":
        return bundled_shard(args)
    if args[0] == "foreign":
        return foreign_shard(args)
    if args[0] == "refresh":
        return refresh_shard(args)
    if args[0] == "multi":
        before = sandbox.deep_snapshot()
        out = multi_component_shard(args)
        sandbox.assert_restored(before)
        return out
    before = sandbox.deep_snapshot() if args[1] == 0 else None
    out = synthetic_shard(args)
    if before is not None:
        sandbox.assert_restored(before)
    return out


def replay(case: dict) -> dict:
    if case["kind"] == "c12key":
        probs = check_key(lookup.by_key(), case["country"], case["code"])
    elif case["kind"] == "c12iban":
        probs = check_iban(lookup.by_key(), case["country"], case["code"]) or []
    elif case["kind"] == "c12refresh":
        part = refresh_shard(("refresh", "quick"))
        hit = [v for v in part["violations"] if v["case"]["entry"] == case["entry"]]
        return {"ok": not hit, "observed": [h["observed"] for h in hit[:3]]}
    elif case["kind"] == "c12multi":
        banks, country = case["banks"], case["country"]
        _, probe_keys, keys = multi_component_registries(country, "quick")
        probs = []
        with sandbox.bank_list([dict(e) for e in banks]):
            index = lookup.index_by_key(banks)
            for k in keys:
                probs += check_key(index, country, k)
            for k in probe_keys:
                probs += check_iban(index, country, k) or []
    elif case["kind"] == "c12bic":
        probs = check_bic(lookup.by_bic(), case["bic"])
    else:
        probs = check_synthetic(case["banks"])
    return {"ok": not probs, "observed": [(p[0], p[2]) for p in probs], "expected": [p[1] for p in probs]}


def main(tier: str) -> int:
    run = report.Run(PID, tier, "exploration", RULE)
    countries = sorted({k[0] for k in lookup.by_key()} | set(lookup.by_country()))
    shards = [("bundled", c, tier) for c in countries]
    shards += [("foreign", c, tier) for c in sorted(reg.countries())]
    # empty registry and the empty-list case
    shards += [("syn", i, tier) for i in range(len(entry_alphabet()))]
    shards.append(("refresh", tier))
    shards += [("multi", c, tier) for c, co in sorted(reg.countries().items())
               if co.positions and len(co.lookup_components) > 1
               and all(co.span(x) for x in co.lookup_components)]
    par.run_shards(run, shard, shards)
    run.exhaustive = True
    run.extra.update({
        "registry_keys": len(lookup.by_key()), "registry_bics": len(lookup.by_bic()),
        "registry_countries": len(countries),
        "entry_alphabet_size": len(entry_alphabet()),
        "exhaustive_note": "all keys and BICs of the bundled registry; all ordered lists of <= 3 entries "
                           "over the 36-entry alphabet",
        "library_init_statements_replayed": sandbox.reinit(("bank",)),
    })
    run.assumptions += ["reference relations mc/ref/lookup.py over the bank list read by mc/ref/reg.py",
                        "synthetic registries are installed with registry.save + the library's own "
                        "top-level build_index statements (re-executed from module source)"]
    return run.finish(replay)
