"""C13 - random generation is always valid, honours pinned fields, and is reproducible."""
from __future__ import annotations

import itertools
import json
import os
import random
import subprocess
import sys

from .. import lib
from ..engine import bases, choice, par, report
from ..ref import iban as ri
from ..ref import lookup, nat, reg

PID = "C13"
RULE = ("the generator is a random.Random subclass whose choice / randint / randrange / _randbelow "
        "answers are choice points of the E1 explorer. For every country (and the no-country form), "
        "both registry modes and pin configurations {none, each single pinnable component, all "
        "pinnable components; thorough: every subset}: all answer sequences with <= 1 non-default "
        "answer (every character of every class at every generated position, every bank of the "
        "country, every country) - large choice points are reduced to {second, middle, last} in "
        "pinned configurations; thorough: <= 2 non-default answers over reduced alternatives. Plus "
        "real generators Random(s): same call twice, after unrelated calls, in fresh processes under "
        "PYTHONHASHSEED in {0,1,2,4242,random}. Oracle: valid IBAN of the requested country with "
        "every pinned value unchanged, or GenerateRandomOverflowError; registry draws in countries "
        "whose entries all carry a bank code belong to a listed bank; equal seeds => equal results. "
        "distinct = distinct (configuration, answer sequence) executions.")
HORIZON = 80  # deviations are placed among the first 80 choice points (two retries' worth)
HASH_SEEDS = ["0", "1", "2", "4242", "random"]


def pinnable(country: str) -> list[str]:
    c = reg.countries()[country]
    out = []
    for comp in reg.COMPONENTS:
        if comp not in c.positions:
            continue
        if comp == "national_checksum_digits" and any(
                k == f"{country}:default" for k in lib.checksum.algorithms):
            continue
        out.append(comp)
    return out


def pin_value(country: str, comp: str, filler: str) -> str:
    c = reg.countries()[country]
    s = c.span(comp)
    return bases.bban(c, filler)[s[0]:s[1]]


def pin_configs(country: str, tier: str):
    comps = pinnable(country)
    if not comps:
        return [{}]
    out = [{}]
    for comp in comps:
        out.append({comp: pin_value(country, comp, "max")})
    out.append({comp: pin_value(country, comp, "distinct") for comp in comps})
    # every subset of the three main components (the other fields still have to be drawn)
    main = [comp for comp in ("bank_code", "branch_code", "account_code") if comp in comps]
    for r in range(2, len(main) + 1):
        for sub in itertools.combinations(main, r):
            out.append({comp: pin_value(country, comp, "distinct") for comp in sub})
    # where the library computes national check digits: the main components pinned together over
    # consecutive account numbers, so that every value of the computed digit occurs (also those
    # for which no digit exists and the draw has to give up)
    if f"{country}:default" in lib.checksum.algorithms and "account_code" in main:
        c = reg.countries()[country]
        s = c.span("account_code")
        if s[1] - s[0] >= 2 and all(k == "n" for k in bases.classes_of(c)[s[1] - 2:s[1]]):
            base = {comp: pin_value(country, comp, "distinct") for comp in main}
            from ..ref import nat as _nat
            body0 = bases.bban(c, "distinct")
            wanted = list(range(12 if tier == "quick" else 100))
            # ... and, among the hundred, account numbers for which the published rule has NO valid
            # check digit (the draw can only give up)
            impossible = []
            for i in range(100):
                acct = base["account_code"][:-2] + f"{i:02d}"
                b = body0[:s[0]] + acct + body0[s[1]:]
                if country in _nat.COUNTRIES and _nat.with_check(country, b) is None and _nat.check_span(country):
                    impossible.append(i)
            for i in dict.fromkeys(wanted + impossible[:3]):
                out.append(dict(base, account_code=base["account_code"][:-2] + f"{i:02d}", _default_run_only=True))
    # pins that CANNOT appear unchanged: right length but a character of the wrong class (the only
    # demand: no invalid object comes back, nothing but library errors escape); a bank code pinned in
    # its combined bank+branch form next to a DIFFERENT branch pin (the branch pin fits its field and
    # must be honoured); a listed multi-component key pinned as the bank code (PL, SI: the draw must
    # stay with that listed bank)
    c = reg.countries()[country]
    cl = bases.classes_of(c)
    for comp in main:
        s0, s1 = c.span(comp)
        good = pin_value(country, comp, "distinct")
        wrong = "A" if cl[s1 - 1] == "n" else "5" if cl[s1 - 1] == "a" else "-"
        out.append({comp: good[:-1] + wrong, "_default_run_only": True, "_only_no_invalid_object": True})
    if "bank_code" in main and "branch_code" in main:
        b, r = pin_value(country, "bank_code", "distinct"), pin_value(country, "branch_code", "distinct")
        other = pin_value(country, "branch_code", "max")
        if other != r:
            out.append({"bank_code": b + r, "branch_code": other, "_default_run_only": True,
                        "_not_demanded": ["bank_code"]})
    if len(c.lookup_components) > 1 and "bank_code" in main:
        keys = sorted(k for (cc_, k) in lookup.by_key() if cc_ == country)
        for key in keys[:: max(1, len(keys) // 3)][:3]:
            out.append({"bank_code": key, "_default_run_only": True, "_not_demanded": ["bank_code"],
                        "_listed_key": key})
    if tier == "thorough":
        for r in range(2, len(comps)):
            for sub in itertools.combinations(comps, r):
                out.append({comp: pin_value(country, comp, "max") for comp in sub})
    seen, uniq = set(), []
    for cfg in out:
        key = tuple(sorted((k, str(v)) for k, v in cfg.items()))
        if key not in seen:
            seen.add(key)
            uniq.append(cfg)
    return uniq


def all_entries_have_bank_code(country: str) -> bool:
    es = lookup.by_country().get(country)
    return bool(es) and all(e.get("bank_code") for e in es)


def judge_result(country: str, use_registry: bool, pins: dict, outcome, opts: dict | None = None):
    """-> None or (signature, expected, observed)"""
    opts = opts or {}
    k, v = outcome
    if k == "foreign":
        return (f"foreign-exception-escapes:{v}", "IBAN or GenerateRandomOverflowError", (k, v))
    if k == "lib":
        if opts.get("_only_no_invalid_object"):
            return None
        if v != "GenerateRandomOverflowError":
            return (f"undocumented-error:{v}", "IBAN or GenerateRandomOverflowError", (k, v))
        return None
    s = str(v)
    if not ri.accept(s):
        return ("returns-invalid-IBAN", "valid IBAN", s)
    if country and s[:2] != country:
        return ("wrong-country", country, s)
    cc = s[:2]
    c = reg.countries()[cc]
    if opts.get("_listed_key") and c.lookup_key(s[4:]) != opts["_listed_key"]:
        return ("pinned-listed-key-not-honoured", opts["_listed_key"], s)
    for comp, val in pins.items():
        if comp in opts.get("_not_demanded", ()):
            continue
        if c.component(s[4:], comp) != val or getattr(v, comp) != val:
            return (f"pinned-{comp}-not-honoured", {comp: val}, {"iban": s, comp: getattr(v, comp)})
    key_is_bank_code_only = c.lookup_components == ["bank_code"]
    if (use_registry and "bank_code" not in pins and ("branch_code" not in pins or key_is_bank_code_only)
            and "national_checksum_digits" not in pins and all_entries_have_bank_code(cc)):
        if v.bank is None or (cc, c.lookup_key(s[4:])) not in lookup.by_key():
            return ("registry-draw-not-a-listed-bank", "listed bank", s)
    return None


def draw(country: str, use_registry: bool, pins: dict, rnd, bban_only=False):
    fn = lib.BBAN.random if bban_only else lib.IBAN.random
    return lib.outcome(lambda: fn(country, random=rnd, use_registry=use_registry, **pins))


def explore_config(part, country, use_registry, pins, bound, alts, tag, opts=None):
    def run(ch):
        return draw(country, use_registry, pins, choice.ScriptedRandom(ch))

    outcomes = set()
    npoints = 0
    for ch, out in choice.explore(run, bound, alts, horizon=HORIZON):
        part.count((tag, ch.answers))
        npoints = max(npoints, len(ch.trace))
        outcomes.add(str(out[1]) if out[0] == "ok" else out)
        bad = judge_result(country, use_registry, pins, out, opts)
        if bad:
            sig, exp, obs = bad
            part.violation(f"{sig} [{'registry' if use_registry else 'no-registry'}"
                           f"{', pinned ' + '+'.join(sorted(pins)) if pins else ''}]",
                           {"kind": "c13script", "country": country, "use_registry": use_registry,
                            "pins": pins, "answers": list(ch.answers), "opts": opts or {}}, exp, obs)
    part.stat("configurations")
    part.stat("distinct_outcomes", len(outcomes))
    return npoints, len(outcomes)


def script_shard(args):
    _, country, tier, use_registry, cfg_i = args
    part = par.Part()
    if cfg_i == "bban":
        # BBAN.random, default run and single deviations over reduced alternatives
        def run(ch):
            return lib.outcome(lambda: lib.BBAN.random(country, random=choice.ScriptedRandom(ch)))
        c = reg.countries()[country]
        for ch, (k, v) in choice.explore(run, 1, choice.reduced_alternatives(12), horizon=HORIZON):
            part.count((country, "bban", ch.answers))
            if k == "ok":
                if not c.matches(str(v)) or v.country_code != country:
                    part.violation("BBAN.random-not-structure-conforming",
                                   {"kind": "c13bban", "country": country, "answers": list(ch.answers)},
                                   c.bban_spec, str(v))
            elif (k, v) != ("lib", "GenerateRandomOverflowError"):
                part.violation(f"BBAN.random-raises:{v}", {"kind": "c13bban", "country": country,
                                                          "answers": list(ch.answers)}, "BBAN", (k, v))
        part.stat("bban_configurations")
        return part.done()
    pins = dict((pin_configs(country, tier) if country else [{}])[cfg_i])
    default_only = pins.pop("_default_run_only", False)
    opts = {k: pins.pop(k) for k in list(pins) if k.startswith("_")}
    full = not pins  # every alternative at every choice point only in the unpinned form
    alts = choice.all_alternatives if full else choice.reduced_alternatives(12)
    tag = (country, use_registry, tuple(sorted(pins.items())))
    if default_only:
        # everything that matters is pinned: the default run and single deviations over 3 alternatives
        explore_config(part, country, use_registry, pins, 1 if tier == "thorough" else 0,
                       choice.reduced_alternatives(3), tag + (str(sorted(opts)),), opts)
        return part.done()
    np_, no_ = explore_config(part, country, use_registry, pins, 1, alts, tag)
    if tier == "thorough":
        explore_config(part, country, use_registry, pins, 2, choice.reduced_alternatives(4),
                       tag + ("d2",))
    if not pins and use_registry:
        part.sample({"country": country or "(none)", "choice_points_default_run": np_,
                     "distinct_outcomes_at_bound_1": no_})
    return part.done()


# ------------------------------------------------------------------ real seeds
def seed_cases(tier: str):
    countries = sorted(reg.countries())
    seeds = range(20 if tier == "quick" else 200)
    cases = []
    for c in countries + [""]:
        for s in seeds:
            for ur in (True, False):
                cases.append((c, s, ur, {}))
        for comp in (pinnable(c) if c else []):
            cases.append((c, 7, True, {comp: pin_value(c, comp, "max")}))
    return cases


def seeded_draw(case):
    c, s, ur, pins = case
    k, v = draw(c, ur, pins, random.Random(s))
    return [k, str(v)]


def child_main():
    cases = json.loads(sys.stdin.read())
    print(json.dumps([seeded_draw(tuple(c[:3]) + (c[3],)) for c in cases]))


def seeds_shard(args):
    _, tier = args
    part = par.Part()
    cases = seed_cases(tier)
    first = [seeded_draw(c) for c in cases]
    for c, r in zip(cases, first):
        part.count(("seed",) + tuple(c[:3]) + (tuple(sorted(c[3].items())),))
        bad = judge_result(c[0], c[2], c[3], (r[0], lib.IBAN(r[1]) if r[0] == "ok" else r[1]))
        if bad:
            part.violation(bad[0] + " [real seed]", {"kind": "c13seed", "case": list(c)}, bad[1], bad[2])
    # the same call again, interleaved with unrelated calls
    lib.IBAN("DE89370400440532013000", validate_bban=True)
    lib.outcome(lib.IBAN, "XX00")
    lib.IBAN.random(random=random.Random(99))
    again = [seeded_draw(c) for c in reversed(cases)][::-1]
    part["evals"] += len(cases)
    for c, a, b in zip(cases, first, again):
        if a != b:
            part.violation("same-seed-different-result-in-process", {"kind": "c13seed", "case": list(c)},
                           a, b)
    # fresh processes under different hash seeds
    payload = json.dumps([list(c) for c in cases])
    procs = []
    for hs in HASH_SEEDS:
        env = dict(os.environ, PYTHONHASHSEED=hs)
        procs.append((hs, subprocess.Popen(
            [sys.executable, "-c", "from mc.props.c13 import child_main; child_main()"],
            stdin=subprocess.PIPE, stdout=subprocess.PIPE, stderr=subprocess.PIPE, text=True, env=env,
            cwd=str(report.VERIF))))
    for hs, p in procs:
        out, err = p.communicate(payload, timeout=600)
        if p.returncode != 0:
            raise report.HarnessError(f"child under PYTHONHASHSEED={hs} failed: {err[-2000:]}")
        res = json.loads(out.strip().splitlines()[-1])
        part["evals"] += len(cases)
        part.stat("fresh_process_runs")
        for c, a, b in zip(cases, first, res):
            if a != b:
                part.violation("same-seed-different-result-across-processes",
                               {"kind": "c13seed", "case": list(c), "hash_seed": hs}, a, b)
    part.stat("seed_cases", len(cases))
    part.sample({"seeded_case": list(cases[0]), "result": first[0]})
    return part.done()


def shard(args):
    return script_shard(args) if args[0] == "script" else seeds_shard(args)


def replay(case: dict) -> dict:
    if case["kind"] == "c13script":
        ch = choice.Chooser(tuple(case["answers"]))
        out = draw(case["country"], case["use_registry"], case["pins"], choice.ScriptedRandom(ch))
        bad = judge_result(case["country"], case["use_registry"], case["pins"], out, case.get("opts"))
        # is there a real seed showing the same failure?
        real = None
        if bad:
            for s in range(300):
                o = draw(case["country"], case["use_registry"], case["pins"], random.Random(s))
                if judge_result(case["country"], case["use_registry"], case["pins"], o, case.get("opts")):
                    real = s
                    break
        return {"ok": not bad, "observed": bad and bad[2], "expected": bad and bad[1],
                "real_seed_with_same_failure": real}
    if case["kind"] == "c13bban":
        ch = choice.Chooser(tuple(case["answers"]))
        k, v = lib.outcome(lambda: lib.BBAN.random(case["country"], random=choice.ScriptedRandom(ch)))
        c = reg.countries()[case["country"]]
        ok = (k == "ok" and c.matches(str(v))) or (k, v) == ("lib", "GenerateRandomOverflowError")
        return {"ok": ok, "observed": (k, str(v))}
    c = case["case"]
    a = seeded_draw((c[0], c[1], c[2], c[3]))
    b = seeded_draw((c[0], c[1], c[2], c[3]))
    bad = judge_result(c[0], c[2], c[3], (a[0], lib.IBAN(a[1]) if a[0] == "ok" else a[1]))
    return {"ok": a == b and not bad, "observed": [a, b, bad]}


def main(tier: str) -> int:
    run = report.Run(PID, tier, "exploration", RULE)
    countries = sorted(reg.countries())
    shards = [("seeds", tier)]
    for c in countries + [""]:
        n = len(pin_configs(c, tier)) if c else 1
        for ur in (True, False):
            shards += [("script", c, tier, ur, i) for i in range(n)]
        if c:
            shards.append(("script", c, tier, True, "bban"))
    # the slow ones first: overflow-prone Norway, then big bank lists
    shards.sort(key=lambda s: (s[0] != "seeds", s[1] != "NO",
                               -len(lookup.by_country().get(s[1], [])) if s[0] == "script" else 0))
    par.run_shards(run, shard, shards)
    run.extra.update({
        "countries": len(countries),
        "deviation_bound_completed": "1 non-default answer (all alternatives unpinned; reduced when pinned)"
                                     + ("; 2 over reduced alternatives" if tier == "thorough" else ""),
        "hash_seeds": HASH_SEEDS, "choice_point_horizon": HORIZON,
        "pinnable_components": {c: pinnable(c) for c in countries if pinnable(c)},
    })
    run.assumptions += ["an answer sequence need not be producible by the Mersenne Twister: random= is "
                        "documented to accept any generator; replay searches real seeds for the same failure",
                        "pins of national_checksum_digits are excluded where the library computes them"]
    return run.finish(replay)
