"""C14 - concurrent use gives every caller the answer it would get alone."""
from __future__ import annotations

import itertools
import random

from .. import lib
from ..engine import bases, par, report, sched
from ..ref import iban as ri
from ..ref import lookup, reg
from . import c07

PID = "C14"
RULE = ("harnesses of 2 or 3 real threads, each running one library call, under the E2 baton "
        "scheduler (scheduling point = every source line, or every bytecode, executed inside "
        "schwifty/); ALL schedules with <= p preemptions are executed (p per harness group in "
        "'bounds'). Operation menu: for every Bundesbank method object account numbers by "
        "(remainder 0 / 1 / other) x (accepted / rejected); the same through IBAN(.., "
        "validate_bban=True); stateless controls, BIC.from_bank_code, IBAN.generate, seeded "
        "IBAN.random, IBAN()/BIC() parses. Oracle: each thread's observation equals its solo "
        "observation (computed sequentially before and after the exploration). A schedule is "
        "non-trivial if it contains at least one preemption; distinct = distinct (harness, answer "
        "sequence) executions.")
READBACK = ["02", "04", "07", "14", "16", "23", "25"]


# ----------------------------------------------------------------------------- operations
def full_outcome(fn, *a, **kw):
    """Like lib.outcome, but an exception is recorded with its message: a caller must get EXACTLY
    what it would get alone, and the text of an error is part of that."""
    try:
        return ("ok", fn(*a, **kw))
    except lib.SchwiftyException as e:
        return ("lib", type(e).__name__, str(e))
    except Exception as e:  # noqa: BLE001
        return ("foreign", type(e).__name__, str(e))


def make_op(spec: dict):
    kind = spec["op"]
    if kind == "method":
        alg = lib.checksum.algorithms["DE:" + spec["m"]]
        acct = spec["account"]
        return lambda: full_outcome(alg.validate, [acct], "")
    if kind == "iban":
        text, nat = spec["text"], spec.get("nat", False)
        return lambda: full_outcome(lambda: str(lib.IBAN(text, validate_bban=nat)))
    if kind == "bic":
        text = spec["text"]
        return lambda: full_outcome(lambda: str(lib.BIC(text)))
    if kind == "from_bank_code":
        cc, code = spec["country"], spec["code"]
        return lambda: full_outcome(lambda: str(lib.BIC.from_bank_code(cc, code)))
    if kind == "candidates":
        cc, code = spec["country"], spec["code"]
        return lambda: full_outcome(lambda: [str(b) for b in lib.BIC.candidates_from_bank_code(cc, code)])
    if kind == "generate":
        a = (spec["country"], spec["bank"], spec["account"], spec.get("branch", ""))
        return lambda: full_outcome(lambda: str(lib.IBAN.generate(*a)))
    if kind == "random":
        cc, seed = spec["country"], spec["seed"]
        return lambda: full_outcome(lambda: str(lib.IBAN.random(cc, random=random.Random(seed))))
    if kind == "from_bban":
        cc, bban = spec["country"], spec["bban"]
        return lambda: full_outcome(lambda: str(lib.IBAN.from_bban(cc, bban)))
    if kind == "components":
        text = spec["text"]
        return lambda: full_outcome(lambda: tuple(getattr(lib.IBAN(text), n) for n in (
            "bank_code", "branch_code", "account_code", "national_checksum_digits", "account_type")))
    if kind == "iban_bank_name":
        text = spec["text"]
        return lambda: full_outcome(lambda: lib.IBAN(text).bank_name)
    if kind == "numeric":
        text = spec["text"]
        return lambda: full_outcome(lambda: lib.IBAN(text, allow_invalid=True).numeric % 97)
    if kind == "iban_bic":
        text = spec["text"]
        return lambda: full_outcome(lambda: str(lib.IBAN(text).bic))
    raise ValueError(kind)


def gran(opcode):
    return {False: "line", True: "opcode", "hybrid": "opcode-then-line"}[opcode]


def fingerprint():
    out = []
    for k, alg in sorted(lib.checksum.algorithms.items()):
        d = getattr(alg, "__dict__", {})
        out.append((k, tuple(sorted((a, v) for a, v in d.items() if isinstance(v, (int, str, bool, type(None)))))))
    return hash(tuple(out))


def method_menu(m: str, limit: int = 3000, max_entries: int = 9):
    """Account numbers found with solo runs of the real method, chosen to cover every (remainder
    class, verdict) combination and every (branch of the published rule, verdict) combination, with
    pairwise different remainders wherever possible (two calls that leave the same scratch value
    behind could never expose an exchange of that value).  Keys: (remainder class, accepted,
    branch)."""
    from ..ref import bbk
    alg = lib.checksum.algorithms["DE:" + m]
    cands = [f"{n:010d}" for n in range(limit)] + [f"{n * 7919 % 10 ** 10:010d}" for n in range(1, 400)]
    cands += [a for b in c07.bases_for(m) for a in c07.deviations(b, 1)]
    info = []
    for a in cands:
        k, v = lib.outcome(alg.validate, [a], "")
        r = getattr(alg, "remainder", None)
        rc = r if r in (0, 1) else "x"
        info.append((a, r, rc, (k, v) == ("ok", True), bbk.feature(m, a)))
    found, used_r, covered = {}, set(), set()
    want = sorted({(rc, acc) for _, _, rc, acc, _ in info}, key=str)
    want_f = sorted({(ft, acc) for _, _, _, acc, ft in info}, key=str)
    for goal_kind, goals in (("rc", want), ("ft", want_f)):
        for g in goals:
            if g in covered or len(found) >= max_entries:
                continue
            pool = [t for t in info if ((t[2], t[3]) if goal_kind == "rc" else (t[4], t[3])) == g]
            pick = next((t for t in pool if t[1] not in used_r), pool[0])
            used_r.add(pick[1])
            covered.add((pick[2], pick[3]))
            covered.add((pick[4], pick[3]))
            found[(pick[2], pick[3], pick[4])] = pick[0]
    return found


def iban_for(code: str, account: str) -> str:
    bban = code + account
    return "DE" + ri.check_digits("DE", bban) + bban


def bank_for_method(m: str):
    for (cc, code), es in lookup.by_key().items():
        if cc == "DE" and es[0].get("checksum_algo") == m:
            return code
    return None


def make_shared_ops(spec: dict):
    """Two calls on ONE object built before the threads start (objects are documented as immutable
    string values; sharing one between threads must be safe)."""
    text = spec["text"]
    obj = lib.IBAN(text, allow_invalid=True)
    table = {
        "validate-nat": lambda: full_outcome(obj.validate, True),
        "validate": lambda: full_outcome(obj.validate),
        "is_valid": lambda: full_outcome(lambda: obj.is_valid),
        "bic": lambda: full_outcome(lambda: str(obj.bic)),
        "components": lambda: full_outcome(lambda: (obj.bank_code, obj.account_code, obj.national_checksum_digits)),
        "formatted": lambda: full_outcome(lambda: obj.formatted),
    }
    return [table[m] for m in spec["methods"]]


SHARED = [
    # valid mod 97, wrong national digits: strict call must raise, the plain one must pass
    {"text": "BE41539007547035", "methods": ["validate-nat", "is_valid"]},
    {"text": "BE41539007547035", "methods": ["validate-nat", "validate"]},
    {"text": "BE68539007547034", "methods": ["validate-nat", "is_valid"]},
    {"text": "DE89370400440532013000", "methods": ["bic", "components"]},
    {"text": "DE89370400440532013000", "methods": ["validate-nat", "formatted"]},
    {"text": "DE00370400440532013000", "methods": ["is_valid", "validate-nat"]},
]


def build_harnesses(tier: str):
    """-> list of (name, [op specs], bound, opcode)"""
    hs = []
    for i, sp in enumerate(SHARED):
        hs.append((f"shared:{i}:{'x'.join(sp['methods'])}", [{"op": "shared", **sp}], 1 if tier == "quick" else 2, False))
    implemented = c07.lib_methods()
    quick = tier == "quick"
    for m in implemented:
        menu = method_menu(m)
        specs = {k: {"op": "method", "m": m, "account": a} for k, a in menu.items()}
        keys = sorted(specs, key=str)
        rb = m in READBACK
        deep_done = set()
        all_pairs = list(itertools.combinations_with_replacement(keys, 2))
        if quick and not rb:
            # non-read-back methods: pairs that differ in remainder class or in rule branch, one per
            # combination, at most 8
            seen_cls, sel = set(), []
            for a, b in all_pairs:
                cp = (str(a[0]), str(b[0]), a[2], b[2])
                if a != b and cp not in seen_cls and (a[0] != b[0] or a[2] != b[2] or a[0] == "x"):
                    seen_cls.add(cp)
                    sel.append((a, b))
            sel.sort(key=lambda ab: (ab[0][2] == ab[1][2], str(ab)))
            all_pairs = sel[:8] or all_pairs[:1]
        for a, b in all_pairs:
            cls_pair = (str(a[0]), str(b[0]))
            differ = a[0] != b[0] or (a[0] == "x" and a != b)
            # one representative pair per pair of remainder classes gets the deeper bound
            deep = differ and cls_pair not in deep_done and (a[1] != b[1] or a[0] != b[0])
            if deep:
                deep_done.add(cls_pair)
            if quick:
                p = 2 if (deep and rb) else 1
            else:
                p = 3 if (deep and rb) else 2
            hs.append((f"m{m}:{a}x{b}", [specs[a], specs[b]], p, False))
        r0 = [k for k in keys if k[0] == 0]
        r1 = [k for k in keys if k[0] == 1]
        rx = [k for k in keys if k[0] == "x"]
        if rb:
            tri = r0[:1] + r1[:1] + rx[:1]
            if len(tri) == 3:
                hs.append((f"m{m}:triple", [specs[k] for k in tri], 1 if quick else 2, False))
            if r1 and rx:  # bytecode granularity
                hs.append((f"m{m}:opcode:{r1[0]}x{rx[0]}", [specs[r1[0]], specs[rx[0]]],
                           1 if (quick or m not in ("02", "16")) else 2, True))
        elif not quick and len(rx) >= 2:
            hs.append((f"m{m}:opcode:{rx[0]}x{rx[1]}", [specs[rx[0]], specs[rx[1]]], 1, True))
        # a call of this method next to a call of ANOTHER method object (whatever the two objects
        # share - a class-level scratch value, a table - is exchanged only across objects)
        if rb:
            for partner in [x for x in ("00", "06", "10", "17", "25", "16") if x != m and x in implemented][:2 if quick else 6]:
                pmenu = method_menu(partner)
                pk = next((k for k in sorted(pmenu, key=str) if k[0] == "x"), None) or next(iter(sorted(pmenu, key=str)), None)
                if pk is None:
                    continue
                for k_ in (r1[:1] + r0[:1] + rx[:1]):
                    hs.append((f"m{m}:cross:{k_}xm{partner}:{pk}", [specs[k_], {"op": "method", "m": partner,
                                                                             "account": pmenu[pk]}], 1 if quick else 2, False))
        # methods whose published rule has several ACCEPTING branches (variants tried in turn,
        # exempt ranges, sub-rules by digit): two accepted accounts of different branches at bytecode
        # granularity (quick: the last pair of branches; thorough: every pair, plus the last pair with
        # a second preemption that may fall on line starts only)
        acc_feats = sorted({k[2] for k in keys if k[1]})
        if len(acc_feats) > 1:
            by_ft = {ft: next(k for k in keys if k[1] and k[2] == ft) for ft in acc_feats}
            fpairs = list(itertools.combinations(acc_feats, 2))
            for fa, fb in (fpairs[-1:] if quick else fpairs):
                hs.append((f"m{m}:opcode-branches:{fa}x{fb}", [specs[by_ft[fa]], specs[by_ft[fb]]], 1, True))
            if not quick:
                fa, fb = fpairs[-1]
                hs.append((f"m{m}:hybrid-branches:{fa}x{fb}", [specs[by_ft[fa]], specs[by_ft[fb]]], 2, "hybrid"))
        code = bank_for_method(m)
        pair = (r1[:1] + rx[:1]) if (r1 and rx) else rx[:2]
        if code and len(pair) == 2 and (rb or not quick):
            hs.append((f"m{m}:iban", [
                {"op": "iban", "text": iban_for(code, menu[pair[0]]), "nat": True},
                {"op": "iban", "text": iban_for(code, menu[pair[1]]), "nat": True}], 1 if quick else 2, False))
    # controls and cross-object pairs
    valid = "DE89370400440532013000"
    ctl = {
        "parse": {"op": "iban", "text": valid},
        "parse-bad": {"op": "iban", "text": "DE00370400440532013000"},
        "bic": {"op": "bic", "text": "GENODEM1GLS"},
        "lookup": {"op": "from_bank_code", "country": "DE", "code": "43060967"},
        "lookup-miss": {"op": "from_bank_code", "country": "DE", "code": "01010101"},
        "candidates": {"op": "candidates", "country": "FR", "code": "30004"},
        "generate": {"op": "generate", "country": "DE", "bank": "37040044", "account": "532013000"},
        "generate-be": {"op": "generate", "country": "BE", "bank": "539", "account": "0075470"},
        "generate-bad": {"op": "generate", "country": "DE", "bank": "370400440", "account": "1"},
        "random": {"op": "random", "country": "DE", "seed": 5},
        "random-no": {"op": "random", "country": "NO", "seed": 3},
        "iban-bic": {"op": "iban_bic", "text": valid},
        "nat-fr": {"op": "iban", "text": "FR1420041010050500013M02606", "nat": True},
        "nat-it": {"op": "iban", "text": "IT60X0542811101000000123456", "nat": True},
    }
    ctl.update({
        "parse-gb": {"op": "iban", "text": "GB29NWBK60161331926819"},
        "parse-fr": {"op": "iban", "text": "FR1420041010050500013M02606"},
        "bic2": {"op": "bic", "text": "MARKDEF1100"},
        "bic-bad": {"op": "bic", "text": "GENOXXM1GLS"},
        "lookup2": {"op": "from_bank_code", "country": "FR", "code": "30004"},
        "candidates-de": {"op": "candidates", "country": "DE", "code": "43060967"},
        "generate-gb": {"op": "generate", "country": "GB", "bank": "NWBK", "account": "31926819",
                        "branch": "601613"},
        "generate-es": {"op": "generate", "country": "ES", "bank": "2100", "account": "0200051332",
                        "branch": "0418"},
        "generate-fr": {"op": "generate", "country": "FR", "bank": "20041", "account": "0500013M026",
                        "branch": "01005"},
        "random2": {"op": "random", "country": "DE", "seed": 6},
        "random-es": {"op": "random", "country": "ES", "seed": 2},
        "nat-es": {"op": "iban", "text": "ES9121000418450200051332", "nat": True},
        "nat-es-bad": {"op": "iban", "text": "ES7921000418460200051332", "nat": True},
        "nat-pl": {"op": "iban", "text": "PL61109010140000071219812874", "nat": True},
        "nat-fi": {"op": "iban", "text": "FI2112345600000785", "nat": True},
        "nat-ee": {"op": "iban", "text": "EE382200221020145685", "nat": True},
        "nat-be": {"op": "iban", "text": "BE68539007547034", "nat": True},
        "nat-be-bad": {"op": "iban", "text": "BE41539007547035", "nat": True},
        "nat-pt": {"op": "iban", "text": "PT50000201231234567890154", "nat": True},
        "nat-si": {"op": "iban", "text": "SI56263300012039086", "nat": True},
        "nat-no": {"op": "iban", "text": "NO9386011117947", "nat": True},
        "nat-cz": {"op": "iban", "text": "CZ6508000000192000145399", "nat": True},
        "nat-is": {"op": "iban", "text": "IS140159260076545510730339", "nat": True},
        "iban-bic2": {"op": "iban_bic", "text": "FR1420041010050500013M02606"},
    })
    pairs = [("parse", "parse-bad"), ("parse", "bic"), ("lookup", "lookup-miss"), ("lookup", "candidates"),
             ("generate", "generate-be"), ("generate", "generate-bad"), ("random", "random"),
             ("random", "random-no"), ("iban-bic", "lookup"), ("nat-fr", "nat-it"), ("generate-be", "nat-fr"),
             ("random", "generate"),
             # same code path, different data (a shared scratch buffer would be exchanged)
             ("parse", "parse-gb"), ("parse-gb", "parse-fr"), ("bic", "bic2"), ("bic", "bic-bad"),
             ("lookup", "lookup2"), ("candidates", "candidates-de"), ("generate", "generate-gb"),
             ("generate-es", "generate-fr"), ("generate-be", "generate-es"), ("random", "random2"),
             ("random", "random-es"), ("nat-es", "nat-pl"), ("nat-es", "nat-es-bad"), ("nat-fi", "nat-ee"),
             ("nat-be", "nat-be-bad"), ("nat-pt", "nat-si"), ("nat-be", "nat-pt"), ("nat-no", "nat-cz"),
             ("nat-is", "nat-cz"), ("nat-fr", "generate-fr"), ("iban-bic", "iban-bic2"),
             ("nat-it", "nat-es")]
    ctl.update({
        "lookup-37040044": {"op": "from_bank_code", "country": "DE", "code": "37040044"},
        "candidates-37040044": {"op": "candidates", "country": "DE", "code": "37040044"},
        "nat-bad-37040044": {"op": "iban", "text": iban_for("37040044", "0532013001"), "nat": True},
        "iban-bank-name": {"op": "iban_bank_name", "text": valid},
    })
    ctl.update({
        "parse-typo": {"op": "iban", "text": "DE89370400440532013001"},
        "parse-gb-typo": {"op": "iban", "text": "GB29NWBK60161331926818"},
        "parse-89-other": {"op": "iban", "text": bases.iban_text("DE", "500105170000000123")},
    })
    # a valid text and a mistyped one carrying the same check digits (a check-digit scratch value
    # exchanged between threads would make the typo pass)
    pairs += [("parse", "parse-typo"), ("parse-gb", "parse-gb-typo"), ("parse-typo", "parse-gb-typo")]
    ctl.update({
        "components-de": {"op": "components", "text": valid},
        "components-gb": {"op": "components", "text": "GB29NWBK60161331926819"},
        "components-is": {"op": "components", "text": "IS140159260076545510730339"},
        "components-fo": {"op": "components", "text": bases.iban_text("FO", "64600001631634")},
        "components-dk": {"op": "components", "text": bases.iban_text("DK", "00400440116243")},
        "generate-de2": {"op": "generate", "country": "DE", "bank": "10010010", "account": "7324931754"},
        "generate-gb2": {"op": "generate", "country": "GB", "bank": "BARC", "account": "00001234", "branch": "200000"},
    })
    pairs += [("components-de", "components-gb"), ("components-gb", "components-is"),
              ("components-fo", "components-dk"), ("components-de", "parse-gb"),
              ("generate", "generate-de2"), ("generate-gb", "generate-gb2"), ("generate-de2", "random")]
    # an assembly (from_bban inside generate / random) next to the validation of a mistyped text: what
    # the assembly switches on for itself must not be visible to the other thread
    ctl["from-bban"] = {"op": "from_bban", "country": "DE", "bban": "370400440532013000"}
    pairs += [("generate", "parse-typo"), ("random", "parse-typo"), ("generate-be", "parse-gb-typo"),
              ("from-bban", "parse-typo"), ("from-bban", "parse-bad"), ("random-es", "nat-es-bad")]
    # calls whose national check RAISES from inside the algorithm (Norwegian check digit 10; method
    # 68 ten-digit account with a 7th digit other than 9), next to ordinary national checks: whatever
    # such a call leaves behind (a lock, a flag) must not affect the other thread
    ctl.update({
        "nat-no-k10": {"op": "iban", "text": bases.iban_text("NO", "86011100050"), "nat": True},
        "nat-68-raises": {"op": "iban", "text": iban_for("20030000", "1234567890"), "nat": True},
    })
    pairs += [("nat-no-k10", "nat-be"), ("nat-68-raises", "nat-fr"), ("nat-no-k10", "nat-68-raises"),
              ("nat-no", "nat-no-k10")]
    # two calls that touch the SAME registry entry (same country and bank code)
    pairs += [("lookup", "lookup"), ("candidates", "candidates"), ("lookup-37040044", "iban-bic"),
              ("candidates-37040044", "iban-bank-name"), ("lookup-37040044", "nat-bad-37040044"),
              ("iban-bic", "iban-bic"), ("candidates-37040044", "lookup-37040044")]
    # per country with a national algorithm: a nationally valid IBAN next to a nationally INVALID one
    # of the same country with a different body (so that whatever the algorithm object remembers about
    # one call - computed digits, sums - differs between the two), and two invalid ones
    from ..ref import nat as _nat
    from . import c06 as _c06
    for cc in sorted(_nat.COUNTRIES):
        cobj = reg.countries().get(cc)
        if cobj is None:
            continue
        good = [b for b in (_nat.with_check(cc, bases.bban(cobj, f)) for f in ("distinct", "seeded", "max")) if b]
        good = list(dict.fromkeys(good))
        cps = _c06.check_positions(cc)
        if len(good) < 2 or not cps:
            continue

        def spoil(b):
            q = cps[-1]
            for alt in "0123456789":
                t = b[:q] + alt + b[q + 1:]
                if t != b and cobj.matches(t) and _nat.accept(cc, t) is False:
                    return t
            return None
        bad = [t for t in (spoil(b) for b in good) if t]
        if not bad:
            continue
        ctl[f"natpair-{cc}-valid"] = {"op": "iban", "text": bases.iban_text(cc, good[0]), "nat": True}
        ctl[f"natpair-{cc}-invalid"] = {"op": "iban", "text": bases.iban_text(cc, bad[-1]), "nat": True}
        pairs.append((f"natpair-{cc}-valid", f"natpair-{cc}-invalid"))
        if len(bad) > 1 and not quick:
            ctl[f"natpair-{cc}-invalid2"] = {"op": "iban", "text": bases.iban_text(cc, bad[0]), "nat": True}
            pairs.append((f"natpair-{cc}-invalid2", f"natpair-{cc}-invalid"))
    # views of unvalidated objects next to ordinary validation: .numeric of a very long text (beyond
    # the interpreter's int <-> str limit) and of an ordinary one
    ctl["numeric-long"] = {"op": "numeric", "text": "DE89" + "3" * 4400}
    ctl["numeric"] = {"op": "numeric", "text": valid}
    pairs += [("numeric-long", "parse"), ("numeric-long", "generate"), ("numeric", "parse-gb"), ("numeric-long", "numeric")]
    deep = {("numeric-long", "parse"), ("numeric-long", "numeric"),
            ("parse", "parse-gb"), ("generate", "generate-gb"), ("nat-es", "nat-es-bad"),
            ("nat-be", "nat-be-bad"), ("generate-es", "generate-fr")}
    for a, b in pairs:
        p = 2 if ((a, b) in deep and not quick) else 1
        hs.append((f"ctl:{a}x{b}", [ctl[a], ctl[b]], p, False))
    if not quick:
        hs.append(("ctl:triple", [ctl["random"], ctl["lookup"], ctl["generate-be"]], 1, False))
    return hs


# ----------------------------------------------------------------------------- exploration
def deep_fingerprint():
    """Everything the schwifty modules keep between calls (module globals, class attributes, instance
    dictionaries of the algorithm objects with their lists and nested objects, cache sizes)."""
    from ..engine import states as _states
    return _states.fingerprint()


def _hang_part(args, detail):
    name, specs, bound, opcode, tier = args
    part = par.Part()
    part["evals"] += 1
    part.violation(f"{name.split(':')[0]}:threads-hang",
                   {"kind": "c14hang", "harness": name, "ops": specs, "opcode": opcode},
                   "every call returns", str(detail)[:400])
    part.stat("harnesses")
    return part.done()


def _explore_warm(args, solo_before, traced, steps):
    part = _run_harness(args, solo_before, traced, steps)
    return part, deep_fingerprint()


def run_harness(args):
    """This (shard) process makes the solo runs and the traced warm-up - state S0.  The exploration
    itself runs in a fork of S0, all executions in that one process (fast).  If the library state at
    the end of the exploration differs from S0, or a schedule prefix took another path than when it
    was recorded, the library carries state from one execution into the next; the executions were
    then not all started from the same state, and the harness is explored AGAIN with every
    execution in its own fork of S0 (what the first exploration found is reported as well)."""
    name, specs, bound, opcode, tier = args
    mk = _ops_factory(specs)
    lib.IBAN("DE89370400440532013000").country  # pre-load pycountry (its real lock is never contended)
    lib.BIC("GENODEM1GLS").country
    try:
        solo_before = [op() for op in mk()]
        traced, steps = sched.warm_up(mk(), opcode)
    except sched.Hang as e:
        return _hang_part(args, e)
    fp0 = deep_fingerprint()
    part, drift = None, None
    try:
        part, fp_end = par.in_child(_explore_warm, args, solo_before, traced, steps)
        if fp_end != fp0 or part["stats"].get("explorations_stopped_early_because_library_state_drifted"):
            # (the second condition matters: an exploration that was stopped early because the state
            # had moved may happen to end in the start state again)
            drift = "library state during or after the exploration differs from the state before it"
    except report.HarnessError as e:
        if "ReplayDivergence" in str(e):
            drift = "a schedule prefix took a different path than when it was recorded"
        elif "Hang" in str(e):
            return _hang_part(args, e)
        else:
            raise
    if drift is None:
        return part
    forked = _run_harness_forked(args, solo_before)
    forked["stats"]["harnesses_with_state_carried_across_executions"] = 1
    if part is not None:
        forked["violations"] = part["violations"] + forked["violations"]
        forked["evals"] += part["evals"]
        forked["distinct"] += part["distinct"]
        for k, v in part["stats"].items():
            if k not in ("harnesses",) and not k.startswith("bound_"):
                forked["stats"][k] = forked["stats"].get(k, 0) + v
        forked["samples"] = part["samples"] + forked["samples"]
    return forked


def _ops_factory(specs):
    if specs and specs[0].get("op") == "shared":
        return lambda: make_shared_ops(specs[0])
    return lambda: [make_op(s) for s in specs]


def _solo_all(mk):
    return [op() for op in mk()]


def _run_harness_forked(args, solo):
    """Every execution in its own fork of this (warmed, pre-exploration) process; after the threads
    have finished, the forked child runs the operations once more alone (read-back): what a schedule
    leaves behind for LATER callers counts too."""
    name, specs, bound, opcode, tier = args
    part = par.Part()
    mk = _ops_factory(specs)
    pll = 4 if any(isinstance(sp, dict) and sp.get("op") == "numeric" for sp in specs) else None
    forked = sched.explore_forked(mk, bound, opcode, readback=True, per_line_limit=pll)
    while True:
        try:
            ch, results, steps, pre, log = next(forked)
        except StopIteration:
            break
        except report.HarnessError as e:
            if "Hang" not in str(e):
                raise
            part.violation(f"{name.split(':')[0]}:threads-hang",
                           {"kind": "c14hang", "harness": name, "ops": specs, "opcode": opcode},
                           "every call returns", str(e)[:300])
            break
        results, after = results
        part.count((name, "forked", ch.answers), nontrivial=pre > 0)
        part.stat("scheduling_steps_executed", sum(steps))
        if results != solo:
            wrong = [i for i, (x, y) in enumerate(zip(results, solo)) if x != y]
            part.violation(f"{name.split(':')[0]}:thread-result-differs-from-solo",
                           {"kind": "c14forked", "harness": name, "ops": specs, "answers": list(ch.answers),
                            "opcode": opcode, "switches": log, "wrong_threads": wrong}, solo, results)
        elif after != solo:
            part.violation(f"{name.split(':')[0]}:solo-result-changed-after-this-schedule",
                           {"kind": "c14forked", "harness": name, "ops": specs, "answers": list(ch.answers),
                            "opcode": opcode, "switches": log, "readback": True}, solo, after)
        if part["stats"]["violating_cases"] >= 25:
            # enough counterexamples for this harness; the remaining schedules are not explored
            part.stat("forked_explorations_stopped_after_25_violating_schedules")
            break
    part.stat("harnesses")
    part.stat("harnesses_rerun_with_fresh_process_per_execution")
    part.stat(f"bound_{bound}_{gran(opcode)}_harnesses")
    return part.done()


def _run_harness(args, solo_before, traced, steps):
    name, specs, bound, opcode, tier = args
    part = par.Part()
    if specs and specs[0].get("op") == "shared":
        mk = lambda: make_shared_ops(specs[0])  # noqa: E731
        specs_n = len(specs[0]["methods"])
    else:
        mk = lambda: [make_op(s) for s in specs]  # noqa: E731
        specs_n = len(specs)
    if traced != solo_before:
        part.violation("tracing-changes-result", {"kind": "c14", "harness": name, "ops": specs,
                                                   "answers": [], "opcode": opcode}, solo_before, traced)
    outcomes, fps, states = set(), set(), set()
    transitions = 0
    last = None
    nruns, drifted = 0, False
    fp_start = deep_fingerprint()
    # operations that loop over thousands of characters offer a switch at most 4 times per source line
    pll = 4 if any(isinstance(sp, dict) and sp.get("op") == "numeric" for sp in specs) else None
    explorer = sched.explore(mk, specs_n, bound, opcode, fingerprint, per_line_limit=pll)
    while True:
        try:
            ch, ex, res = next(explorer)
        except StopIteration:
            break
        except sched.Hang as e:
            # a thread blocked for good (e.g. on a lock another call never released)
            part.violation(f"{name.split(':')[0]}:threads-hang",
                           {"kind": "c14hang", "harness": name, "ops": specs, "opcode": opcode}, solo_before,
                           str(e))
            break
        part.count((name, ch.answers), nontrivial=ex.preemptions > 0)
        nruns += 1
        if (nruns & (nruns - 1)) == 0 or nruns % 512 == 0:
            # executions 1, 2, 4, 8, ... and every 512th: has the library state moved away from S0?
            if deep_fingerprint() != fp_start:
                drifted = True
        transitions += ex.total_steps
        fps |= ex.fingerprints
        for me, st, to in ex.switch_log:
            states.add((name, me, st, to))
        outcomes.add(repr(res))
        if ex.preemptions:
            last = (ch.answers, list(res), list(ex.steps))
        if res != solo_before:
            wrong = [i for i, (a, b) in enumerate(zip(res, solo_before)) if a != b]
            part.violation(f"{name.split(':')[0]}:thread-result-differs-from-solo",
                           {"kind": "c14", "harness": name, "ops": specs, "answers": list(ch.answers),
                            "opcode": opcode, "switches": ex.switch_log, "wrong_threads": wrong},
                           solo_before, res)
        if drifted:
            # the rest of this exploration would not start from S0 either: stop here, the caller
            # re-explores the harness with one fork of S0 per execution
            part.stat("explorations_stopped_early_because_library_state_drifted")
            break
    # determinism of the scheduler: the last explored schedule, replayed twice, must repeat itself
    if last is not None and not drifted:
        again = [sched.run_once(mk(), last[0], opcode=opcode) for _ in range(2)]
        for ch2, st2, res2 in again:
            if (res2 != last[1] or st2.steps != last[2]) and deep_fingerprint() != fp_start:
                drifted = True  # not the scheduler: the library state is no longer S0
                part.stat("explorations_stopped_early_because_library_state_drifted")
                break
            if res2 != last[1] or st2.steps != last[2]:
                raise report.HarnessError(f"{name}: schedule {last[0]} does not replay deterministically: "
                                          f"{last[1]}/{last[2]} vs {res2}/{st2.steps}")
        part.stat("schedules_replayed_twice_identically")
    solo_after = [op() for op in mk()]
    if solo_after != solo_before:
        part.violation("solo-result-changed-after-exploration", {"kind": "c14", "harness": name,
                       "ops": specs, "answers": [], "opcode": opcode}, solo_before, solo_after)
    part.stat("harnesses")
    part.stat("scheduling_steps_executed", transitions)
    part.stat("distinct_switch_points", len(states))
    part.stat("harnesses_with_shared_state_change_at_switch", int(len(fps) > 1))
    part.stat("harnesses_with_more_than_one_outcome_vector", int(len(outcomes) > 1))
    part.stat(f"bound_{bound}_{gran(opcode)}_harnesses")
    part.sample({"harness": name, "ops": specs, "steps_per_thread": steps, "preemption_bound": bound,
                 "granularity": gran(opcode), "distinct_outcome_vectors": len(outcomes),
                 "distinct_state_fingerprints_at_switches": len(fps)})
    return part.done()


COLD_PAIRS = [
    ("lookup", "lookup2"), ("lookup", "iban-bic"), ("nat-de-listed", "lookup-37040044"),
    ("generate-be", "generate-es"), ("nat-be", "nat-fr"), ("random", "random-es"),
    ("candidates", "lookup"), ("parse", "bic"), ("generate-be", "nat-be-bad"), ("iban-bank-name", "lookup"),
]


def cold_specs():
    valid = "DE89370400440532013000"
    return {
        "lookup": {"op": "from_bank_code", "country": "DE", "code": "43060967"},
        "lookup2": {"op": "from_bank_code", "country": "FR", "code": "30004"},
        "lookup-37040044": {"op": "from_bank_code", "country": "DE", "code": "37040044"},
        "iban-bic": {"op": "iban_bic", "text": valid},
        "iban-bank-name": {"op": "iban_bank_name", "text": valid},
        "nat-de-listed": {"op": "iban", "text": valid, "nat": True},
        "generate-be": {"op": "generate", "country": "BE", "bank": "539", "account": "0075470"},
        "generate-es": {"op": "generate", "country": "ES", "bank": "2100", "account": "0200051332",
                        "branch": "0418"},
        "nat-be": {"op": "iban", "text": "BE68539007547034", "nat": True},
        "nat-be-bad": {"op": "iban", "text": "BE41539007547035", "nat": True},
        "nat-fr": {"op": "iban", "text": "FR1420041010050500013M02606", "nat": True},
        "random": {"op": "random", "country": "DE", "seed": 5},
        "random-es": {"op": "random", "country": "ES", "seed": 2},
        "candidates": {"op": "candidates", "country": "FR", "code": "30004"},
        "parse": {"op": "iban", "text": valid},
        "bic": {"op": "bic", "text": "GENODEM1GLS"},
    }


CANARY_METHODS: list = []   # filled in the pristine process (the method list itself must not be read
#                             from a table a schedule may have damaged)


def canaries():
    """What a schedule leaves behind for LATER callers of OTHER code paths: after the threads have
    finished, every implemented Bundesbank method judges two digit-rich base accounts and their
    single-digit neighbours in the last five positions, and a few IBANs / BICs / lookups are run - in the same process."""
    out = []
    for m in CANARY_METHODS or c07.lib_methods():
        alg = lib.checksum.algorithms.get("DE:" + m)
        if alg is None or not hasattr(alg, "validate"):
            out.append((m, f"algorithm table entry is {alg!r}"))
            continue
        bits = []
        rich = [b for b in c07.bases_for(m) if len(set(b)) > 3][:2] or c07.bases_for(m)[:1]
        accts = [a for b in rich for a in c07.deviations(b, 1) if a[:5] == b[:5]]  # last five positions varied
        for a in accts:
            k, v = lib.outcome(alg.validate, [a], "")
            bits.append("1" if (k, v) == ("ok", True) else "0" if k in ("ok", "lib") else "E")
        out.append((m, "".join(bits)))
    for f in (lambda: lib.iban_parse("DE89370400440532013000", True), lambda: lib.iban_parse("BE68539007547034", True),
              lambda: lib.bic_parse("GENODEM1GLS"), lambda: lib.outcome(lambda: str(lib.BIC.from_bank_code("DE", "43060967"))),
              lambda: lib.outcome(lambda: str(lib.IBAN.generate("ES", "2100", "0200051332", "0418")))):
        out.append(f())
    return out


def cold_bank_pairs():
    """(name, spec, spec): national validations of two German IBANs whose banks use DIFFERENT
    methods, as the first library calls of the process (whatever is looked up or built on first use
    of one method must not be disturbed by the first use of another)."""
    methods = [m for m in c07.lib_methods() if bank_for_method(m)]
    out = []
    # banks whose method the library does NOT implement come first (their first lookup takes the
    # "unknown method" path, which is the rarely exercised one)
    unknown = sorted({es[0].get("checksum_algo") for (cc, _), es in lookup.by_key().items()
                      if cc == "DE" and es[0].get("checksum_algo") and es[0].get("checksum_algo") not in set(methods)})
    for a, b in zip(unknown[::2], unknown[1::2]):
        out.append((f"cold-banks-unimplemented:{a}x{b}",
                    {"op": "iban", "text": iban_for(bank_for_method(a), "0123456789"), "nat": True},
                    {"op": "iban", "text": iban_for(bank_for_method(b), "9876543210"), "nat": True}))
    out = out[:3]
    for a, b in zip(methods[::2], methods[1::2]):
        accts = [next((x for x in c07.bases_for(m) if len(set(x)) > 3), c07.bases_for(m)[0]) for m in (a, b)]
        out.append((f"cold-banks:{a}x{b}",
                    {"op": "iban", "text": iban_for(bank_for_method(a), accts[0]), "nat": True},
                    {"op": "iban", "text": iban_for(bank_for_method(b), accts[1]), "nat": True}))
    return out


def cold_method_pairs():
    """(name, spec, spec) per implemented method: two different accounts of the method, both being
    the first calls of their process."""
    out = []
    for m in c07.lib_methods():
        # two digit-rich accounts: both calls have real work to do on whatever is built on first use
        allb = list(dict.fromkeys(c07.bases_for(m)))
        accts = ([b for b in allb if len(set(b)) > 3] + [b[::-1] for b in allb if len(set(b)) > 3] + allb)[:2]
        if len(accts) == 2 and accts[0] != accts[1]:
            out.append((f"cold-method:{m}", {"op": "method", "m": m, "account": accts[0]},
                        {"op": "method", "m": m, "account": accts[1]}))
    return out


def run_cold_method_harness(args):
    _, name, sa, sb, bound, tier = args
    part = par.Part()
    specs = [sa, sb]
    solo = [par.in_child(_solo, s) for s in specs]
    CANARY_METHODS[:] = par.in_child(c07.lib_methods)
    want_canaries = par.in_child(canaries)
    cold = sched.explore_cold(specs, make_op, bound, after=canaries)
    while True:
        try:
            ch, (results, after), steps, pre, log = next(cold)
        except StopIteration:
            break
        except report.HarnessError as e:
            if "Hang" not in str(e):
                raise
            part.violation("cold-start:threads-hang", {"kind": "c14hang", "harness": name, "ops": specs,
                                                       "opcode": False}, solo, str(e)[:300])
            break
        part.count((name, ch.answers), nontrivial=pre > 0)
        part.stat("scheduling_steps_executed", sum(steps))
        if results != solo:
            wrong = [i for i, (x, y) in enumerate(zip(results, solo)) if x != y]
            part.violation("cold-start:thread-result-differs-from-solo",
                           {"kind": "c14cold", "harness": name, "ops": specs, "answers": list(ch.answers),
                            "switches": log, "wrong_threads": wrong}, solo, results)
        elif after != want_canaries:
            diff = [(a, b) for a, b in zip(after, want_canaries) if a != b][:2]
            part.violation("cold-start:later-calls-of-other-code-paths-get-different-answers",
                           {"kind": "c14coldcanary", "harness": name, "ops": specs, "answers": list(ch.answers),
                            "switches": log}, [d[1] for d in diff], [d[0] for d in diff])
    part.stat("harnesses")
    part.stat("cold_start_harnesses")
    part.stat("cold_start_harnesses_with_canaries")
    part.stat(f"bound_{bound}_line_harnesses")
    if name.endswith(":00"):
        part.sample({"harness": name, "ops": specs, "preemption_bound": bound, "cold_start": True,
                     "afterwards": "all methods x ~90 accounts, 5 other calls"})
    return part.done()


def run_cold_harness(args):
    """Both operations are the FIRST library calls of their process: every execution (and every solo
    run) starts in its own fork of the pristine post-import process."""
    _, a, b, bound, tier = args
    part = par.Part()
    sp = cold_specs()
    specs = [sp[a], sp[b]]
    name = f"cold:{a}x{b}"
    solo = [par.in_child(_solo, s) for s in specs]
    outcomes = set()
    cold = sched.explore_cold(specs, make_op, bound)
    while True:
        try:
            ch, results, steps, pre, log = next(cold)
        except StopIteration:
            break
        except report.HarnessError as e:
            if "Hang" not in str(e):
                raise
            part.violation("cold-start:threads-hang", {"kind": "c14hang", "harness": name, "ops": specs,
                                                       "opcode": False}, solo, str(e)[:300])
            break
        part.count((name, ch.answers), nontrivial=pre > 0)
        part.stat("scheduling_steps_executed", sum(steps))
        outcomes.add(repr(results))
        if results != solo:
            wrong = [i for i, (x, y) in enumerate(zip(results, solo)) if x != y]
            part.violation("cold-start:thread-result-differs-from-solo",
                           {"kind": "c14cold", "harness": name, "ops": specs, "answers": list(ch.answers),
                            "switches": log, "wrong_threads": wrong}, solo, results)
    part.stat("harnesses")
    part.stat("cold_start_harnesses")
    part.stat("harnesses_with_more_than_one_outcome_vector", int(len(outcomes) > 1))
    part.stat(f"bound_{bound}_line_harnesses")
    part.sample({"harness": name, "ops": specs, "preemption_bound": bound, "cold_start": True,
                 "switch_offers_per_source_line_and_thread": sched.COLD_PER_LINE_LIMIT})
    return part.done()


def _solo(spec):
    return make_op(spec)()


def shard(args):
    if args[0] == "coldm":
        return run_cold_method_harness(args)
    return run_cold_harness(args) if args[0] == "cold" else run_harness(args)


def _replay_forked_child(case):
    """Warm this process exactly as run_harness does, then run the recorded schedule twice, each time
    in its own fork, with the read-back."""
    mk = _ops_factory(case["ops"])
    opcode = case.get("opcode", False)
    lib.IBAN("DE89370400440532013000").country
    lib.BIC("GENODEM1GLS").country
    solo = [op() for op in mk()]
    sched.warm_up(mk(), opcode)
    pll = 4 if any(isinstance(sp, dict) and sp.get("op") == "numeric" for sp in case["ops"]) else None
    res = [par.in_child(sched._cold_exec_ops, mk, tuple(case["answers"]), None, opcode, pll, True)[2]
           for _ in range(2)]
    return solo, res


def replay(case: dict) -> dict:
    if case["kind"] == "c14forked":
        solo, res = par.in_child(_replay_forked_child, case)
        if res[0] != res[1]:
            raise report.HarnessError(f"forked schedule replay is not deterministic: {res}")
        threads, after = res[0]
        return {"ok": threads == solo and after == solo, "expected": solo,
                "observed": {"threads": threads, "alone_afterwards": after}}
    if case["kind"] == "c14hang":
        specs = case["ops"]
        mk = lambda: [make_op(s) for s in specs]  # noqa: E731
        try:
            for _ in sched.explore(mk, len(specs), 0, case.get("opcode", False)):
                pass
        except sched.Hang as e:
            return {"ok": False, "observed": str(e)}
        return {"ok": True}
    if case["kind"] == "c14coldcanary":
        specs = case["ops"]
        CANARY_METHODS[:] = par.in_child(c07.lib_methods)
        want = par.in_child(canaries)
        res = [par.in_child(sched._cold_exec, specs, make_op, tuple(case["answers"]), None, False, canaries)[2]
               for _ in range(2)]
        if res[0] != res[1]:
            raise report.HarnessError(f"cold schedule replay is not deterministic: {str(res)[:300]}")
        return {"ok": res[0][1] == want, "observed": [(a, b) for a, b in zip(res[0][1], want) if a != b][:2]}
    if case["kind"] == "c14cold":
        specs = case["ops"]
        solo = [par.in_child(_solo, s) for s in specs]
        res = [par.in_child(sched._cold_exec, specs, make_op, tuple(case["answers"]), None, False)[2]
               for _ in range(2)]
        if res[0] != res[1]:
            raise report.HarnessError(f"cold schedule replay is not deterministic: {res}")
        return {"ok": res[0] == solo, "expected": solo, "observed": res[0]}
    specs = case["ops"]
    if specs and specs[0].get("op") == "shared":
        mk = lambda: make_shared_ops(specs[0])  # noqa: E731
    else:
        mk = lambda: [make_op(s) for s in specs]  # noqa: E731
    solo = [op() for op in mk()]
    sched.warm_up(mk(), case.get("opcode", False))
    fp = deep_fingerprint()
    res1 = sched.run_once(mk(), tuple(case["answers"]), opcode=case.get("opcode", False))[2]
    fp1 = deep_fingerprint()
    res2 = sched.run_once(mk(), tuple(case["answers"]), opcode=case.get("opcode", False))[2]
    if res1 != res2 and fp1 == fp:
        # same schedule, same library state, different results: that would be the scheduler's fault
        raise report.HarnessError(f"schedule replay is not deterministic: {res1} vs {res2}")
    # (if the library state moved, the second run started elsewhere - the first one is the replay)
    return {"ok": res1 == solo, "expected": solo, "observed": res1,
            "library_state_changed_by_the_replay": fp1 != fp}


def main(tier: str) -> int:
    run = report.Run(PID, tier, "model_checking", RULE)
    # this process never calls the library itself (cold-start harnesses fork from it)
    hs = par.in_child(build_harnesses, tier)
    hs.sort(key=lambda h: -(h[2] * 10 + (5 if h[3] else 0) + len(h[1])))
    cold = [("cold", a, b, 1 if tier == "quick" else 2, tier) for a, b in COLD_PAIRS]
    coldm = [("coldm", n, sa, sb, 1 if tier == "quick" else 2, tier) for n, sa, sb in par.in_child(cold_method_pairs)]
    cbanks = par.in_child(cold_bank_pairs)
    coldm += [("coldm", n, sa, sb, 1, tier) for n, sa, sb in (cbanks[:4] if tier == "quick" else cbanks)]
    par.run_shards(run, shard, cold + coldm + [h + (tier,) for h in hs])
    bounds = {}
    for name, specs, bound, opcode in hs + [(f"cold:{a}x{b}", [0, 0], c[3], False) for c in cold
                                            for a, b in [(c[1], c[2])]] + [
                                               (f"cold:{c[1]}", [0, 0], c[4], False) for c in coldm]:
        nthreads = len(specs[0]["methods"]) if (specs and isinstance(specs[0], dict) and specs[0].get("op") == "shared") else len(specs)
        key = ("cold start, " if name.startswith("cold:") else "shared object, " if name.startswith("shared:") else "") + f"{nthreads} threads, <= {bound} preemptions, {gran(opcode)} granularity"
        bounds[key] = bounds.get(key, 0) + 1
    run.extra.update({
        "states": int(run.stats.get("distinct_switch_points", 0)),
        "transitions": int(run.stats.get("scheduling_steps_executed", 0)),
        "schedules_executed": int(run.evaluations),
        "harnesses": len(hs) + len(cold) + len(coldm), "cold_start_harnesses": len(cold) + len(coldm),
        "bounds": bounds,
        "states_note": "states = distinct (harness, thread, step index, next thread) switch points "
                       "exercised; transitions = scheduling steps executed over all schedules",
    })
    run.assumptions += [
        "switches happen only at line/opcode events inside schwifty/; code outside (re, json, pycountry, "
        "rstr, random) runs atomically; free-threaded builds and multiprocessing are not modelled",
        "a cooperative scheduler cannot see data races that need a switch inside one bytecode (CPython "
        "does not switch there either)",
    ]
    return run.finish(replay)
