"""C15 - results depend only on arguments and bundled data, never on call history."""
from __future__ import annotations

import copy
import itertools
import json
import multiprocessing as mp
import os
import pickle
import random
import subprocess
import sys

from .. import lib
from ..engine import par, report, states
from ..ref import lookup
from ..ref import iban as ri

PID = "C15"
RULE = ("explicit-state search over the library's global state: a state is the canonical form of all "
        "small mutable state of the schwifty modules (module globals, class attributes, instance "
        "dictionaries and property values of the algorithm singletons, cache sizes, registry key set) "
        "and is (re-)created by forking the pristine post-import process and replaying the shortest "
        "operation history that reaches it. Breadth-first search to closure, one search per group "
        "of operations that share an algorithm object (general operations + that group; the scratch "
        "state of different objects are independent components, see 'closure_per_group'); on EVERY "
        "transition: outcome == outcome of the same call as the first call of a "
        "fresh interpreter, registry payload == deep copy taken after import (content and observable "
        "order), every object created earlier in the history unchanged. Complemented by a merge-free "
        "enumeration of operation sequences that needs no fingerprint (thorough: ALL sequences of "
        "length <= 2 and all of length 3 over the core alphabet; quick: all pairs with at least one "
        "of the first 14 core operations, all pairs of core operations, and all triples over 6 core operations). distinct = distinct (history, operation) transitions.")

VALID = "DE89370400440532013000"


# ------------------------------------------------------------------ observations
def canon_obs(v):
    if isinstance(v, (lib.IBAN, lib.BIC, lib.BBAN)):
        comps = []
        for name in ("country_code", "bank_code", "branch_code", "account_code", "checksum_digits",
                     "location_code", "national_checksum_digits"):
            try:
                comps.append(getattr(v, name, None))
            except Exception as e:  # noqa: BLE001
                comps.append("!" + type(e).__name__)
        return (type(v).__name__, str(v), tuple(comps))
    if isinstance(v, dict):
        return ("dict", tuple(sorted((str(k), canon_obs(x)) for k, x in v.items())))
    if isinstance(v, (list, tuple)):
        return (type(v).__name__, tuple(canon_obs(x) for x in v))
    if isinstance(v, (str, int, bool, type(None), float)):
        return v
    return ("object", type(v).__name__)


class Broken:
    """Returned by an operation that checks an invariant of its own (an object it created must not be
    changed by the calls it then makes) when that invariant does not hold."""

    def __init__(self, before, after):
        self.before, self.after = before, after


def keeps(make, *uses):
    """Operation: build an object, note what can be observed of it, make further calls that are
    handed the object (or parts of it), and compare."""
    def run():
        obj = make()
        parts = [obj] + ([obj.bban] if isinstance(obj, lib.IBAN) else [])
        before = [canon_obs(x) for x in parts] + [x.__getnewargs__() for x in parts]
        outs = []
        for use in uses:
            try:
                outs.append(canon_obs(use(obj)))
            except Exception as e:  # noqa: BLE001
                outs.append("raises " + type(e).__name__)
        after = [canon_obs(x) for x in parts] + [x.__getnewargs__() for x in parts]
        if after != before:
            return Broken(before, after)
        return outs
    return run


def observe(fn):
    """-> (canonical observation, live value or None)"""
    try:
        v = fn()
        if isinstance(v, Broken):
            return ("object-modified", (repr(v.before)[:300], repr(v.after)[:300])), None
    except lib.SchwiftyException as e:
        return ("raises", type(e).__name__), None
    except Exception as e:  # noqa: BLE001
        return ("raises-foreign", type(e).__name__), None
    return ("ok", canon_obs(v)), v


# ------------------------------------------------------------------ alphabet
def german_accounts():
    """For methods 16, 02, 25: accounts by remainder class (0 / 1 / other); for remainder 1 both an
    account whose verdict hinges on the remainder-1 special rule and one where it does not, and for
    'other' an accepted and a rejected one.  Computed with solo runs in a forked child."""
    from . import c14
    out = {}
    for m in ("16", "02", "25"):
        alg = lib.checksum.algorithms["DE:" + m]
        pick: dict = {}
        cands = [f"{n:010d}" for n in range(6000)] + [f"{n * 7919 % 10 ** 10:010d}" for n in range(1, 3000)]
        for a in cands:
            k, v = lib.outcome(alg.validate, [a], "")
            r = getattr(alg, "remainder", None)
            acc = (k, v) == ("ok", True)
            if r == 0:
                key = "0"
            elif r == 1:
                special = (a[8] == a[9] and a[9] != "0") if m == "16" else (a[1] in "89") if m == "25" else True
                key = "1s" if special else "1p"
            else:
                key = "xa" if acc else "xr"
            pick.setdefault(key, a)
            if len(pick) == 5:
                break
        out[m] = pick
        out[m + "_bank"] = c14.bank_for_method(m)
    # method 88: one accepted account per branch of the rule (third digit 9 / 0 / 1-8)
    from ..ref import bbk
    pick88 = {}
    for base in ["0090000000", "0000000000", "0050000000", "0012345670"]:
        for a in c14.c07.deviations(base, 2):
            ft = bbk.feature("88", a)
            if ft not in pick88 and bbk.verdict("88", a) is True:
                pick88[ft] = a
        if len(pick88) == 3:
            break
    out["88"] = pick88
    out["88_bank"] = c14.bank_for_method("88")
    # every other implemented method: the C14 operand menu (remainder class x verdict x rule branch)
    out["all_methods"] = {}
    for m in c14.c07.lib_methods():
        if m in ("16", "02", "25", "88"):
            continue
        menu = c14.method_menu(m, limit=1500, max_entries=12)
        out["all_methods"][m] = {f"{rc}{'a' if acc else 'r'}-{ft}": a for (rc, acc, ft), a in menu.items()}
    # a listed bank code with exactly one entry and no BIC; Norwegian seeds whose first candidate has
    # no valid check digit (the draw retries); a valid Norwegian account starting with 00
    for (cc, code), es in sorted(lookup.by_key().items()):
        if len(es) == 1 and not es[0].get("bic"):
            out["single_no_bic"] = [cc, code]
            break
    retry = []
    for s_ in range(400):
        calls = [0]

        class Counting(random.Random):
            def choice(self, seq):
                calls[0] += 1
                return super().choice(seq)
        lib.outcome(lambda: lib.IBAN.random("NO", random=Counting(s_)))
        if calls[0] > 13:
            retry.append(s_)
        if len(retry) == 2:
            break
    out["no_retry_seeds"] = retry
    from ..ref import nat as _nat
    b00 = _nat.with_check("NO", "86010012340")
    out["no_00"] = ("NO" + ri.check_digits("NO", b00) + b00) if b00 else None
    # a bank code whose first registry entry is not the primary one (several entries, names differ)
    for (cc, code), es in sorted(lookup.by_key().items()):
        if cc == "DE" and len(es) > 1 and not es[0].get("primary") and any(e.get("primary") for e in es) \
                and len({e["name"] for e in es} | {e["short_name"] for e in es}) > 2:
            out["nonprimary_first"] = code
            break
    return out


def c12_build(cc, code):
    from . import c12
    return c12.build_iban(cc, code)


def build_alphabet(ga: dict, tier: str = "thorough"):
    I, B, BB, alg = lib.IBAN, lib.BIC, lib.BBAN, lib.checksum.algorithms  # noqa: E741
    ops = []

    def add(name, fn, core=False, group="general"):
        ops.append((name, fn, core, group))

    add("iban-valid", lambda: I(VALID), True)
    add("iban-valid-spaced-lower", lambda: I("de89 3704 0044 0532 0130 00"))
    add("iban-bad-checksum", lambda: I("DE00370400440532013000"), True)
    add("iban-bad-length", lambda: I("DE8937040044053201300"))
    add("iban-bad-structure", lambda: I("DE89370400440532013A00"))
    add("iban-bad-country", lambda: I("XX89370400440532013000"))
    add("iban-nonascii-digit", lambda: I("DE8937040044053201300٠"))
    add("is_valid-false", lambda: I("DE00370400440532013000", allow_invalid=True).is_valid)
    add("is_valid-true", lambda: I(VALID, allow_invalid=True).is_valid)
    add("bic-valid", lambda: B("GENODEM1GLS"), True)
    add("bic-bad-length", lambda: B("GENODEM1GL"))
    add("bic-bad-structure", lambda: B("GENODEM1G-S"))
    add("bic-bad-country", lambda: B("GENOXXM1GLS"))
    add("bic-strict-reject", lambda: B("1ENODEM1GLS", enforce_swift_compliance=True))
    add("nat-be-accept", lambda: I("BE68539007547034", validate_bban=True))
    add("nat-be-reject", lambda: I("BE41539007547035", validate_bban=True), True)
    add("nat-fr-accept", lambda: I("FR1420041010050500013M02606", validate_bban=True))
    add("nat-no-reject", lambda: I("NO9386011117948", validate_bban=True))
    add("nat-no-accept", lambda: I("NO9386011117947", validate_bban=True), group="mNO")
    add("generate-no", lambda: I.generate("NO", "8601", "111794"), group="mNO")
    if ga.get("no_00"):
        add("nat-no-account-00", (lambda t=ga["no_00"]: I(t, validate_bban=True)), group="mNO")
    for s_ in ga.get("no_retry_seeds", []):
        add(f"random-no-retrying-seed{s_}", (lambda s_=s_: I.random("NO", random=random.Random(s_))), group="mNO")
    if ga.get("single_no_bic"):
        cc_, code_ = ga["single_no_bic"]
        add("lookup-single-entry-without-bic", (lambda: B.from_bank_code(cc_, code_)), True)
        add("candidates-single-entry-without-bic", (lambda: B.candidates_from_bank_code(cc_, code_)))
        t_ = c12_build(cc_, code_)
        if t_:
            add("iban-bank-of-single-entry-without-bic", (lambda: (I(t_).bank_name, I(t_).bic)), True)
    for m in ("16", "02", "25", "88"):
        for rc, acct in sorted(ga[m].items()):
            add(f"method{m}-{rc}", (lambda m=m, a=acct: alg["DE:" + m].validate([a], "")),
                core=(m == "16"), group="m" + m)
        bank = ga.get(m + "_bank")
        if bank:
            for rc, acct in sorted(ga[m].items()):
                bban = bank + acct
                text = "DE" + ri.check_digits("DE", bban) + bban
                add(f"iban-de-method{m}-{rc}", (lambda t=text: I(t, validate_bban=True)), group="m" + m)
    for m, menu in sorted(ga.get("all_methods", {}).items()):
        for key, acct in sorted(menu.items()):
            add(f"method{m}-{key}", (lambda m=m, a=acct: alg["DE:" + m].validate([a], "")), group="x" + m)
    add("method00", lambda: alg["DE:00"].validate(["9290701000"], ""), group="m00-24")
    add("method00-b", lambda: alg["DE:00"].validate(["0000000018"], ""), group="m00-24")
    add("method24", lambda: alg["DE:24"].validate(["0000138301"], ""), group="m00-24")
    add("method24-b", lambda: alg["DE:24"].validate(["9307118603"], ""), group="m00-24")
    add("generate-de", lambda: I.generate("DE", "37040044", "532013000"), True)
    add("generate-be", lambda: I.generate("BE", "539", "0075470"))
    add("generate-gb-branch", lambda: I.generate("GB", "NWBK", "31926819", "601613"))
    add("generate-bank-too-long", lambda: I.generate("DE", "370400440", "1"))
    add("generate-account-too-long", lambda: I.generate("DE", "37040044", "12345678901"), True)
    add("generate-illegal-char", lambda: I.generate("DE", "1234-678", "1"))
    add("from_components-is", lambda: BB.from_components("IS", bank_code="01", branch_code="59",
                                                          account_type="26", account_code="007654",
                                                          account_holder_id="5510730339"))
    add("random-de-seed1", lambda: I.random("DE", random=random.Random(1)), True)
    add("random-any-seed2", lambda: I.random(random=random.Random(2)))
    add("random-pl-pinned", lambda: I.random("PL", random=random.Random(3), branch_code="9999"))
    add("random-gb-noregistry", lambda: I.random("GB", random=random.Random(4), use_registry=False), True)
    add("random-no-seed5", lambda: I.random("NO", random=random.Random(5)))
    add("bban-random-es", lambda: BB.random("ES", random=random.Random(6)))
    add("random-br-no-banks", lambda: I.random("BR", random=random.Random(7)), True)
    add("random-ao-no-positions", lambda: I.random("AO", random=random.Random(8)))
    add("iban-ao-components", lambda: (I("AO06004400006729503010102").bank_code,
                                       I("AO06004400006729503010102").bic), True)
    add("from_components-ao", lambda: BB.from_components("AO", bank_code="1"))
    add("iban-xk-country", lambda: getattr(I("XK051212012345678906").country, "alpha_2", None))
    add("bic-xk", lambda: B("NLPRXKPR"))
    add("lookup-hit", lambda: B.from_bank_code("DE", "43060967"), True)
    add("lookup-miss", lambda: B.from_bank_code("DE", "01010101"), True)
    add("candidates-fr", lambda: B.candidates_from_bank_code("FR", "30004"))
    add("domestic-bank-codes", lambda: B("GENODEM1GLS").domestic_bank_codes)
    add("bank-names", lambda: B("MARKDEF1100").bank_names)
    add("exists-false", lambda: B("AAAADEAAXXX").exists)
    add("deprecated-country_bank_code", lambda: B("MARKDEF1100").country_bank_code)
    add("iban-bic", lambda: I(VALID).bic, True)
    add("iban-bank", lambda: I(VALID).bank, True)
    add("iban-bank_name", lambda: I("PL61109010140000071219812874").bank_name)
    add("iban-pl-bic-then-fields", lambda: (I("PL61109010140000071219812874").bic,
                                            I("PL61109010140000071219812874").bank_code,
                                            I("SI56263300012039086").bic, I("SI56263300012039086").bank_code), True)
    # ---- banks whose registry texts are unusual (leading / trailing / doubled blanks, non-ASCII):
    # reading them must leave the registry as it is
    odd = []
    for (cc_o, code_o), es in sorted(lookup.by_key().items()):
        nm = es[0].get("name", "")
        kind = ("blank-edge" if nm != nm.strip() else "double-blank" if "  " in nm else
                "non-ascii" if not nm.isascii() else None)
        if kind and kind not in [k for k, _, _ in odd] and c12_build(cc_o, code_o):
            odd.append((kind, cc_o, code_o))
        if len(odd) == 3:
            break
    for kind, cc_o, code_o in odd:
        t_o = c12_build(cc_o, code_o)
        add(f"bank-with-{kind}-name-iban-views", (lambda t=t_o: (I(t).bank_name, I(t).bank_short_name, I(t).bank,
                                                                 I(t).bic and I(t).bic.bank_names)))
    # ---- objects handed to further calls must come back unchanged (checked inside the operation)
    add("keeps-bban-handed-to-from_bban-of-another-country", keeps(
        lambda: I("LT121000011101001000").bban,
        lambda b: I.from_bban("AT", b), lambda b: I.from_bban("AT", b, validate_bban=True),
        lambda b: I.from_bban("AT", b, allow_invalid=True), lambda b: BB("AT", b), lambda b: BB("AT", b).bank_code))
    add("keeps-iban-handed-to-constructors", keeps(
        lambda: I(VALID), lambda i: I(i), lambda i: I(i, validate_bban=True), lambda i: I.from_bban("DE", i.bban),
        lambda i: BB("FR", i.bban), lambda i: copy.copy(i).bban.bank_name, lambda i: i.bic))
    add("keeps-bban-with-lower-case-country", keeps(
        lambda: BB("de", "370400440532013000"), lambda b: b.spec, lambda b: b.bank_name, lambda b: b.bic,
        lambda b: b.bank_code, lambda b: lib.outcome(b.validate_national_checksum)))
    add("bban-lower-case-country-then-from_bban", lambda: (lambda b: (lib.outcome(lambda: b.bank_name),
        lib.outcome(lambda: str(I.from_bban(b.country_code, b)))))(BB("de", "370400440532013000")))
    add("keeps-bic-handed-to-constructors", keeps(
        lambda: B("GENODEM1GLS"), lambda b: B(b), lambda b: b.domestic_bank_codes, lambda b: copy.deepcopy(b)))
    # ---- extra keyword components given to generate / from_components, next to plain calls for
    # countries that have such fields
    add("generate-gt-extra-keywords", lambda: I.generate("GT", "TRAJ", "0000001210029690", account_type="10",
                                                         currency_code="01"))
    add("generate-gt-plain", lambda: I.generate("GT", "TRAJ", "0000001210029690"))
    add("generate-mu-plain", lambda: I.generate("MU", "BOMM01", "101030300200000"))
    add("generate-bg-plain", lambda: I.generate("BG", "BNBG", "1020345678", "9661"))
    add("from_components-is-account-type", lambda: BB.from_components("IS", bank_code="01", account_type="26",
                                                                      account_code="007654"))
    add("generate-is-plain", lambda: I.generate("IS", "01", "007654", "59"))
    # ---- a bank-less country drawn with a pinned bank code while the registry is switched on
    add("random-mu-pinned-bank-registry", lambda: I.random("MU", random=random.Random(9), bank_code="BOMM01"))
    add("random-br-pinned-bank-registry", lambda: I.random("BR", random=random.Random(10), bank_code="00360305"))
    # ---- subclasses of the value classes, and bank codes with several registry entries
    class ReportBIC(B):
        pass

    class ReportIBAN(I):
        pass
    multi = sorted(k for k, es in lookup.by_key().items() if len(es) > 1 and k[0] in ("DE", "FR")
                   and sum(1 for e in es if e.get("bic")) > 1)[:2]
    for cc_m, code_m in multi:
        tm = c12_build(cc_m, code_m)
        add(f"multi-{cc_m}-from_bank_code", (lambda a=cc_m, b=code_m: B.from_bank_code(a, b)))
        add(f"multi-{cc_m}-candidates", (lambda a=cc_m, b=code_m: B.candidates_from_bank_code(a, b)))
        add(f"multi-{cc_m}-subclass-from_bank_code", (lambda a=cc_m, b=code_m: ReportBIC.from_bank_code(a, b)),
            core=(tier != "quick" and cc_m == multi[0][0]))
        add(f"multi-{cc_m}-subclass-candidates", (lambda a=cc_m, b=code_m: ReportBIC.candidates_from_bank_code(a, b)))
        if tm:
            add(f"multi-{cc_m}-iban-bic", (lambda t=tm: I(t).bic))
            add(f"multi-{cc_m}-subclass-iban-bic", (lambda t=tm: (ReportIBAN(t).bic, ReportIBAN(t).bban)))
    add("subclass-iban", lambda: (ReportIBAN(VALID), ReportIBAN(VALID).bban, ReportIBAN.generate("DE", "37040044", "532013000")))
    add("subclass-bic", lambda: ReportBIC("GENODEM1GLS"))
    # ---- the same lookup key under two countries (the registry index is keyed by country AND key)
    by_text: dict = {}
    for (cc_k, key_k) in lookup.by_key():
        by_text.setdefault(key_k, []).append(cc_k)
    shared = sorted(k for k, ccs in by_text.items() if len(ccs) > 1)
    picked = [k for k in shared if "DE" in by_text[k]][:3] + [k for k in shared if "DE" not in by_text[k]][:1]
    from ..ref import bbk as _bbk
    from . import c07 as _c07
    for key_k in picked:
        for cc_k in sorted(by_text[key_k]):
            tk = c12_build(cc_k, key_k)
            if tk:
                add(f"shared-key-{key_k}-{cc_k}", (lambda t=tk: (I(t).bank_name, I(t).bic, I(t).bank)),
                    core=(tier != "quick" and cc_k != "DE" and key_k == picked[0]))
        if "DE" in by_text[key_k]:
            m_k = lookup.german_method(key_k + "0" * 10)
            if m_k in _bbk.METHODS and ("DE:" + m_k) in alg:
                rej = next((a for b_ in _c07.bases_for(m_k) for a in _c07.deviations(b_, 1)
                            if _bbk.verdict(m_k, a) is False), None)
                if rej:
                    bb_ = key_k + rej
                    add(f"shared-key-{key_k}-DE-rejected-account",
                        (lambda t="DE" + ri.check_digits("DE", bb_) + bb_: I(t, validate_bban=True)))
    # a listed German code carried by an IBAN of a country where it is NOT listed
    for cc_k in ("PL", "HU", "CH"):
        tk = c12_build(cc_k, "37040044")
        if tk and (cc_k, "37040044") not in lookup.by_key():
            add(f"german-code-unlisted-in-{cc_k}", (lambda t=tk: (I(t).bank, I(t).bic)))
            break
    # ---- warnings escalated to errors / recorded: the deprecated accessors warn on EVERY call
    import warnings

    def escalated(fn):
        def run():
            with warnings.catch_warnings():
                warnings.simplefilter("error")
                return fn()
        return run

    def recorded(fn):
        def run():
            with warnings.catch_warnings(record=True) as w:
                warnings.simplefilter("always")
                v = fn()
            return (v, sorted(type(x.message).__name__ for x in w))
        return run
    for acc in ("country_bank_code", "bank_name", "bank_short_name"):
        add(f"deprecated-{acc}-warnings-as-errors", escalated(lambda acc=acc: getattr(B("MARKDEF1100"), acc)),
            core=(tier != "quick" and acc == "bank_name"))
        add(f"deprecated-{acc}-warnings-recorded", recorded(lambda acc=acc: getattr(B("GENODEM1GLS"), acc)))
    add("iban-lower-warnings-as-errors", escalated(lambda: I("de89 3704 0044 0532 0130 00")))
    add("generate-combined-warnings-as-errors", escalated(lambda: I.generate("GB", "NWBK601613", "31926819")))
    add("lookup-warnings-recorded", recorded(lambda: B.from_bank_code("DE", "43060967")))
    for cc in sorted(lookup.by_country()):
        add(f"random-{cc}", (lambda cc=cc: I.random(cc, random=random.Random(31))), group="xrandom")
    np = ga.get("nonprimary_first")
    if np:
        text = "DE" + ri.check_digits("DE", np + "0000000000") + np + "0000000000"
        add("np-candidates", (lambda: B.candidates_from_bank_code("DE", np)), True)
        add("np-from_bank_code", (lambda: B.from_bank_code("DE", np)))
        add("np-iban-bank", (lambda: (I(text).bank_name, I(text).bank_short_name)), True)
        add("np-iban-bic", (lambda: I(text).bic))
    add("copy-iban", lambda: copy.copy(I(VALID)))
    add("deepcopy-iban", lambda: copy.deepcopy(I(VALID)), True)
    add("pickle-bic", lambda: pickle.loads(pickle.dumps(B("GENODEM1GLS"))))
    add("deepcopy-bban", lambda: copy.deepcopy(I(VALID).bban))
    add("registry-get-iban", lambda: lib.registry.get("iban")["DE"]["bban_spec"])
    add("registry-get-bank-len", lambda: len(lib.registry.get("bank")))
    add("registry-has", lambda: (lib.registry.has("bank_code"), lib.registry.has("nope")))
    if tier == "quick":
        drop = ("iban-de-method02", "iban-de-method25-0", "iban-de-method25-x", "iban-de-method16-0",
                "iban-de-method16-x", "iban-de-method88-third-0", "method02-xr", "method25-xr",
                "iban-valid-spaced-lower", "nat-fr-accept", "generate-gb-branch", "random-no-seed5",
                "bank-names", "copy-iban", "registry-has", "bic-bad-country", "iban-bad-country",
                "method00-b", "method24-b", "np-from_bank_code", "from_components-ao")
        ops = [o for o in ops if not o[0].startswith(drop)]
    return ops


# ------------------------------------------------------------------ transitions
_CTX = {}


def ctx():
    """Per-process context built lazily in the *pristine* image: alphabet, snapshot, fresh outcomes."""
    return _CTX


def run_history(history, extra=None, check_all=True):
    """In a forked pristine child: replay ``history`` (op indices), then apply ``extra`` (list of op
    indices) one after the other; returns per-step records."""
    ops, snap, fresh = _CTX["ops"], _CTX["snapshot"], _CTX["fresh"]
    live = []  # (op index, observation, live object)
    records = []
    n_hist = len(history)
    for step, oi in enumerate(list(history) + list(extra or [])):
        name, fn = ops[oi][0], ops[oi][1]
        obs, val = observe(fn)
        problems = []
        if obs[0] == "object-modified":
            problems.append(("object-modified-by-calls-it-was-handed-to", obs[1][0], obs[1][1]))
        elif obs != fresh[oi]:
            problems.append(("outcome-depends-on-history", fresh[oi], obs))
        if step >= n_hist and (check_all or step == n_hist + len(extra or []) - 1):
            # the registry comparison is the expensive part: it is made after every *new* operation
            # (history prefixes were compared when they were new)
            d = snap.check()
            if d:
                problems.append(("registry-modified", "unchanged", d))
        for oj, oobs, oval in live:
            now = ("ok", canon_obs(oval))
            if now != oobs:
                problems.append(("earlier-object-modified", oobs, now))
        if val is not None and isinstance(val, (lib.IBAN, lib.BIC, lib.BBAN, list, dict)):
            live.append((oi, obs, val))
        records.append({"op": oi, "obs": obs, "problems": problems,
                        "fp": states.fingerprint() if step >= len(history) - 1 else None})
    return records


def transition_task(args):
    group, history, op_indices, expect_fp = args
    out = []
    for oi in op_indices:
        recs = states.in_child(run_history, history, [oi])
        if history and expect_fp is not None and recs[len(history) - 1]["fp"] != expect_fp:
            raise report.HarnessError(f"state re-creation diverged for history {history}")
        out.append((group, history, oi, recs[-1]))
    return out


def sequence_task(args):
    seqs = args
    out = []
    for seq in seqs:
        recs = states.in_child(run_history, (), list(seq), False)
        out.append((seq, recs))
    return out


def fresh_outcome_child():
    """Executed by a brand-new interpreter: outcome of op <index> as the very first library call."""
    idx = int(sys.argv[1])
    ga = json.loads(sys.argv[2])
    ops = build_alphabet(ga, sys.argv[3])
    obs, _ = observe(ops[idx][1])
    print("OBS=" + json.dumps(obs))


def to_tuple(x):
    return tuple(to_tuple(i) for i in x) if isinstance(x, list) else x


def _fresh_in_fork(i):
    return observe(_CTX["ops"][i][1])[0]


def fresh_outcomes(ga, n_ops, tier="thorough"):
    # the fresh interpreters run under a DIFFERENT hash seed than this process (PYTHONHASHSEED=0):
    # "a fresh process" is any process, and the outcome must not depend on its hash salt
    env = dict(os.environ, PYTHONHASHSEED="4242")
    procs = []
    out = [None] * n_ops
    # the per-method operations take their reference outcome from a fork of the pristine process (a
    # first call after import all the same); everything else from a brand-new interpreter
    forked = [i for i in range(n_ops) if _CTX["ops"][i][3].startswith("x")]
    for i in forked:
        out[i] = states.in_child(_fresh_in_fork, i)
    pending = [i for i in range(n_ops) if i not in set(forked)]
    running = []
    while pending or running:
        while pending and len(running) < par.NPROC:
            i = pending.pop(0)
            p = subprocess.Popen([sys.executable, "-c", "from mc.props.c15 import fresh_outcome_child as f; f()",
                                  str(i), json.dumps(ga), tier], stdout=subprocess.PIPE, stderr=subprocess.PIPE,
                                 text=True, env=env, cwd=str(report.VERIF))
            running.append((i, p))
        i, p = running.pop(0)
        so, se = p.communicate(timeout=300)
        line = [ln for ln in so.splitlines() if ln.startswith("OBS=")]
        if p.returncode != 0 or not line:
            raise report.HarnessError(f"fresh interpreter for op {i} failed: {se[-1500:]}")
        out[i] = to_tuple(json.loads(line[-1][4:]))
    return out


def replay(case: dict) -> dict:
    ga = states.in_child(german_accounts)
    _CTX["ops"] = build_alphabet(ga)
    _CTX["snapshot"] = states.RegistrySnapshot()
    names = [o[0] for o in _CTX["ops"]]
    seq = [names.index(n) for n in case["sequence"]]
    _CTX["fresh"] = fresh_outcomes(ga, len(names))
    recs = states.in_child(run_history, (), seq)
    probs = [(names[r["op"]], p) for r in recs for p in r["problems"]]
    return {"ok": not probs, "observed": probs}


def main(tier: str) -> int:
    run = report.Run(PID, tier, "model_checking", RULE)
    states.foreign_probes()  # loads pycountry's database once here instead of in every forked child
    fp0 = states.fingerprint()
    ga = states.in_child(german_accounts)
    ops = build_alphabet(ga, tier)
    names = [o[0] for o in ops]
    _CTX["ops"] = ops
    _CTX["snapshot"] = states.RegistrySnapshot()
    import time as _time
    t_phase = {"setup": round(_time.time() - run.t0, 1)}
    _t = _time.time()
    _CTX["fresh"] = fresh_outcomes(ga, len(ops), tier)
    t_phase["fresh_interpreters"] = round(_time.time() - _t, 1)
    _t = _time.time()
    all_ops = list(range(len(ops)))

    def report_problems(history, oi, rec, kind):
        for sig, exp, obs in rec["problems"]:
            seq = [names[i] for i in history] + [names[oi]]
            run.violation(f"{sig}:{names[oi]}", {"kind": "c15", "sequence": seq, "found_by": kind}, exp, obs)

    # ---------------- closure BFS over the small state, one search per alphabet group
    # The scratch registers of different algorithm objects are independent components of the state,
    # so the closure over the whole alphabet is the product of the per-object closures.  Each search
    # uses the general operations plus the operations of ONE object group; interactions across
    # groups are left to the merge-free sequences below (which need no such argument).
    ctxp = mp.get_context("fork")
    pool = ctxp.Pool(par.NPROC)
    groups = sorted({o[3] for o in ops} - {"general"})
    try:
        seen_total, transitions, edges, depth_max = {}, 0, 0, 0
        level_sizes, per_group = [], {}
        closure_ok = True
        full_groups = set(groups) if tier == "thorough" else {g for g in groups if g.startswith("m")}
        G = {}
        for g in groups:
            if g in full_groups:
                g_ops = [i for i, o in enumerate(ops) if o[3] in ("general", g)]
            else:  # quick: the other method objects are searched with their own operations only
                g_ops = [i for i, o in enumerate(ops) if o[3] == g]
            G[g] = {"ops": g_ops, "seen": {fp0: ()}, "fp_of": {(): fp0}, "frontier": [((), fp0)], "depth": 0}
        first_full = next((g for g in groups if g in full_groups), None)
        # all groups advance level by level together (one pool round per level)
        while any(st["frontier"] for st in G.values()):
            tasks = []
            level_sizes.append(sum(len(st["frontier"]) for st in G.values()))
            for g, st in G.items():
                for hist, fp in st["frontier"]:
                    # general x general from the initial state is covered once, by the first full group
                    todo = st["ops"] if (g == first_full or hist or g not in full_groups) else [
                        i for i in st["ops"] if ops[i][3] == g]
                    for chunk in range(0, len(todo), 7):
                        tasks.append((g, hist, todo[chunk:chunk + 7], fp if hist else None))
            results = []
            for res in pool.imap_unordered(transition_task, tasks, chunksize=1):
                results.extend(res)
            results.sort(key=lambda r: (r[0], r[1], r[2]))
            for st in G.values():
                st["next"] = []
            for g, hist, oi, rec in results:
                st = G[g]
                transitions += 1
                run.evaluations += 1
                report_problems(hist, oi, rec, f"closure-bfs[{g}]")
                if rec["fp"] != st["fp_of"][hist]:
                    edges += 1
                if rec["fp"] not in st["seen"]:
                    st["seen"][rec["fp"]] = hist + (oi,)
                    st["fp_of"][hist + (oi,)] = rec["fp"]
                    st["next"].append((hist + (oi,), rec["fp"]))
            for g, st in G.items():
                if st["frontier"]:
                    st["depth"] += 1
                st["frontier"] = st.pop("next")
                if len(st["seen"]) > (150 if tier == "quick" else 1500):
                    run.notes.append(f"group {g}: state cap reached at depth {st['depth']}: {len(st['seen'])} states")
                    closure_ok = False
                    st["frontier"] = []
        for g, st in G.items():
            depth_max = max(depth_max, st["depth"])
            per_group[g] = {"states": len(st["seen"]), "operations": len(st["ops"]), "depth": st["depth"]}
            for fp, h in st["seen"].items():
                seen_total.setdefault(fp, h)
        seen = seen_total
        depth = depth_max
        frontier = [] if closure_ok else [None]
        closure_complete = not frontier
        t_phase["closure_bfs"] = round(_time.time() - _t, 1)
        _t = _time.time()
        # ---------------- merge-free sequences
        core = [i for i, o in enumerate(ops) if o[2]]
        if tier == "quick":
            all_ops = [i for i in all_ops if not ops[i][3].startswith("x")]
        every = list(range(len(ops)))
        same_group = [(a, b) for a in every for b in every
                      if ops[a][3] == ops[b][3] and ops[a][3] != "general"]
        if tier == "thorough":
            seqs = [s for s in itertools.product(all_ops, repeat=2)]
            seqs += [s for s in itertools.product(core, repeat=3)]
            seqs += [(a, b, a) for a, b in same_group if a != b]
        else:
            main_group = [(a, b) for a, b in same_group if ops[a][3].startswith("m")]
            qcore = core[:14]
            seqs = sorted(set(itertools.product(all_ops, qcore)) | set(itertools.product(qcore, all_ops))
                          | set(itertools.product(core, core)) | set(main_group))
            seqs += [s for s in itertools.product(core[:6], repeat=3)]
            seqs += [(a, b, a) for a, b in main_group if a != b]
        chunks = [seqs[i:i + 25] for i in range(0, len(seqs), 25)]
        nseq = 0
        for res in pool.imap_unordered(sequence_task, chunks, chunksize=1):
            for seq, recs in res:
                nseq += 1
                run.evaluations += len(seq)
                for k, rec in enumerate(recs):
                    report_problems(tuple(seq[:k]), seq[k], rec, "merge-free-sequences")
    finally:
        pool.terminate()
        pool.join()
    if states.fingerprint() != fp0 or _CTX["snapshot"].check():
        raise report.HarnessError("the exploring process itself is no longer pristine")
    t_phase["merge_free_sequences"] = round(_time.time() - _t, 1)
    run.extra["wall_seconds_per_phase"] = t_phase
    run.distinct = transitions + nseq
    state_hist = sorted(seen.values(), key=lambda h: (len(h), h))
    run.samples = [{"state_reached_by": [names[i] for i in h]} for h in state_hist[:6]] + \
                  [{"sequence": [names[i] for i in seqs[len(seqs) // 2]]}]
    run.extra.update({
        "states": len(seen), "transitions": transitions, "state_changing_transitions": edges,
        "bfs_depth": depth, "bfs_level_sizes": level_sizes, "closure_complete": closure_complete,
        "closure_per_group": per_group,
        "alphabet": names, "alphabet_size": len(names),
        "merge_free_sequences": nseq, "core_alphabet": [names[i] for i in core],
        "traces_validated_against_impl": transitions + nseq,
        "exhaustive": bool(closure_complete),
        "state_components_that_vary": vary_report(seen),
    })
    run.assumptions += [
        "the fingerprint captures every mutable global of the schwifty modules reachable through module "
        "globals, class attributes and instance dictionaries/properties; state hidden elsewhere (C "
        "extensions, other packages such as pycountry's lazy loader, re's cache) is not part of it - the "
        "merge-free enumeration does not rely on it",
        "operations outside the alphabet are not covered",
    ]
    return run.finish(replay)


def vary_report(seen):
    return f"{len(seen)} distinct fingerprints"
