"""C16 - IBAN, BIC and BBAN are string values: equality, hashing, order and copies agree."""
from __future__ import annotations

import copy
import itertools
import pickle

from .. import lib
from ..engine import bases, par, report
from ..ref import reg

PID = "C16"
RULE = ("objects: IBAN, BIC and BBAN (several countries) built with validation off from the text "
        "alphabet in 'texts', validated ones where valid, and plain strings (the same texts raw and "
        "compacted). ALL ordered pairs x {==, !=, <, <=, >, >=, hash agreement, dict lookup, set "
        "membership}; sorted() of every 3-subset (quick: of a 14-value cross-section) in every order; "
        "every object x {copy.copy, copy.deepcopy, pickle protocols 0..HIGHEST}, fresh and after every "
        "public property was read and the validations were run on it. Oracle: the same "
        "operator on str(x), str(y); sorting equals sorting by str; a copy is ==, same class, same "
        "country_code, same components, an IBAN's .bban again a BBAN of the same country. distinct = "
        "distinct (operation, operands) cases.")

TEXTS = ["", "A", "a", "B", "AA", "0", "ß", "DE89370400440532013000", "DE89 3704 0044 0532 0130 00",
         "de89370400440532013000", "GB29NWBK60161331926819", "GENODEM1GLS", "GENODEM1", "genodem1gls",
         "GENO DE M1 GLS", "370400440532013000", "Z", "DE89370400440532013001", "GENODEM1XXX",
         "GENODEM1GL", "DE89370400440532013", "DE89370400440532013000\n", " DE89370400440532013000",
         "GENODEM1GLS ", "nwbk60161331926819"]
COMPS = reg.COMPONENTS
# texts with a non-ASCII character, and every ASCII / normalised / escaped re-spelling of them (as
# plain strings): an object holding the former must not compare equal to any of the latter
NONASCII = ["É", "DE89É70400440532013000", "GENODEÉ1", "٣70400440532013000"]
# percent signs (a text that is still percent-encoded after one decoding), texts longer than any code
ODD_TEXTS = ["DE89%25203704", "%41", "A%20B", "%2541", "DE89370400440532013000" * 2, "9" * 35, "A" * 40,
             "GENODEM1GLS" * 4]


def respellings(t: str) -> list[str]:
    import unicodedata
    import urllib.parse
    out = []
    for handler in ("backslashreplace", "xmlcharrefreplace", "namereplace", "ignore", "replace"):
        out.append(t.encode("ascii", handler).decode("ascii"))
    out += [t.encode("unicode_escape").decode("ascii"), ascii(t), repr(t), t.casefold(), t.lower(),
            urllib.parse.quote(t), t.encode("utf-8").decode("latin-1"), t.encode("utf-7").decode("ascii")]
    out += [unicodedata.normalize(f, t) for f in ("NFC", "NFD", "NFKC", "NFKD")]
    out += [o.upper() for o in out]
    return [o for o in dict.fromkeys(out) if o != t]


# purely numeric BBANs of different lengths, where numeric order and string order disagree
NUMERIC_BBANS = ["9", "10", "2", "09", "100", "0370400440532013000", "37040044053201300", "999999999999999999"]


def build_values():
    """-> list of (description, factory) ; factories build a fresh value each time"""
    vals = []
    for t in TEXTS:
        vals.append((f"str:{t!r}", (lambda t=t: t)))
        vals.append((f"IBAN*:{t!r}", (lambda t=t: lib.IBAN(t, allow_invalid=True))))
        vals.append((f"BIC*:{t!r}", (lambda t=t: lib.BIC(t, allow_invalid=True))))
    for t in NONASCII:
        vals.append((f"str:{t!r}", (lambda t=t: t)))
        vals.append((f"IBAN*:{t!r}", (lambda t=t: lib.IBAN(t, allow_invalid=True))))
        vals.append((f"BIC*:{t!r}", (lambda t=t: lib.BIC(t, allow_invalid=True))))
        vals.append((f"BBAN:DE:{t!r}", (lambda t=t: lib.BBAN("DE", t))))
        for r in respellings(t):
            vals.append((f"str:{r!r}", (lambda r=r: r)))
    for t in ODD_TEXTS:
        vals.append((f"str:{t!r}", (lambda t=t: t)))
        vals.append((f"IBAN*:{t!r}", (lambda t=t: lib.IBAN(t, allow_invalid=True))))
        vals.append((f"BIC*:{t!r}", (lambda t=t: lib.BIC(t, allow_invalid=True))))
        vals.append((f"BBAN:DE:{t!r}", (lambda t=t: lib.BBAN("DE", t))))
    for t in NUMERIC_BBANS:
        for cc in ("DE", "GB"):
            vals.append((f"BBAN:{cc}:{t!r}", (lambda t=t, cc=cc: lib.BBAN(cc, t))))
        vals.append((f"str:{t!r}", (lambda t=t: t)))
    seen_d, uniq = set(), []
    for d, f in vals:
        if d not in seen_d:
            seen_d.add(d)
            uniq.append((d, f))
    vals = uniq
    for t in ["", "A", "370400440532013000", "NWBK60161331926819", "3704 0044 0532 0130 00",
              "nwbk60161331926819", "nwbk 6016 1331 9268 19"]:
        for cc in ("DE", "GB"):
            vals.append((f"BBAN:{cc}:{t!r}", (lambda t=t, cc=cc: lib.BBAN(cc, t))))
    for t in ["DE89370400440532013000", "GB29NWBK60161331926819", "de89 3704 0044 0532 0130 00"]:
        vals.append((f"IBAN:{t!r}", (lambda t=t: lib.IBAN(t))))
        vals.append((f"IBAN.bban:{t!r}", (lambda t=t: lib.IBAN(t).bban)))
    for t in ["GENODEM1GLS", "GENODEM1", "geno de m1 gls", "GENODEM1XXX", "DEUTDEFF", "DEUTDEFFXXX"]:
        vals.append((f"BIC:{t!r}", (lambda t=t: lib.BIC(t))))
    for c in ("IS", "BR", "FR", "PL"):
        tx = bases.base_ibans(c, ["distinct"])[0][1]
        vals.append((f"IBAN:{tx!r}", (lambda tx=tx: lib.IBAN(tx))))
        vals.append((f"IBAN.bban:{tx!r}", (lambda tx=tx: lib.IBAN(tx).bban)))
    return vals


OPS = {
    "==": lambda a, b: a == b, "!=": lambda a, b: a != b, "<": lambda a, b: a < b,
    "<=": lambda a, b: a <= b, ">": lambda a, b: a > b, ">=": lambda a, b: a >= b,
}


def pair_problems(x, y):
    probs = []
    sx, sy = str(x), str(y)
    for name, f in OPS.items():
        try:
            got = f(x, y)
        except Exception as e:  # noqa: BLE001
            got = f"raises {type(e).__name__}"
        exp = f(sx, sy)
        if got is not exp:
            probs.append((f"operator {name}", exp, got))
    if sx == sy and hash(x) != hash(y):
        probs.append(("hash differs for equal values", "equal hashes", (hash(x), hash(y))))
    if hash(x) != hash(sx):
        probs.append(("hash differs from the string's", hash(sx), hash(x)))
    d = {x: 1}
    if (y in d) is not (sx == sy):
        probs.append(("dict lookup", sx == sy, y in d))
    if (y in {x}) is not (sx == sy):
        probs.append(("set membership", sx == sy, y in {x}))
    return probs


def _get(v, name):
    try:
        return getattr(v, name, None)
    except Exception as e:  # noqa: BLE001
        return f"raises {type(e).__name__}"


def describe(v):
    is_acct = isinstance(v, (lib.IBAN, lib.BBAN))
    bban = _get(v, "bban") if isinstance(v, lib.IBAN) else None
    return {"class": type(v).__name__, "str": str(v),
            "country_code": _get(v, "country_code"),
            "components": {c: _get(v, c) for c in COMPS} if is_acct else None,
            "bban": (type(bban).__name__, str(bban), _get(bban, "country_code")) if bban is not None else None}


def touch_everything(v):
    """Use the object the way an application does before it copies it: read every public property
    and run the validations (whatever such calls leave on the object travels with its copies)."""
    import inspect
    for name in dir(type(v)):
        if name.startswith("_"):
            continue
        static = inspect.getattr_static(type(v), name)
        if callable(static) or isinstance(static, (classmethod, staticmethod)):
            continue  # methods; what remains are properties, cached properties and other descriptors
        try:
            getattr(v, name)
        except Exception:  # noqa: BLE001
            pass
    for call in (lambda: v.validate(), lambda: v.validate(validate_bban=True), lambda: v.validate(True),
                 lambda: v.validate_national_checksum(), lambda: v.bban.validate_national_checksum()):
        try:
            call()
        except Exception:  # noqa: BLE001
            pass


def copy_problems(v, touched: bool = False):
    probs = []
    if touched:
        touch_everything(v)
    want = describe(v)
    ways = [("copy.copy", copy.copy), ("copy.deepcopy", copy.deepcopy)]
    for proto in range(pickle.HIGHEST_PROTOCOL + 1):
        ways.append((f"pickle protocol {proto}", (lambda o, p=proto: pickle.loads(pickle.dumps(o, p)))))
    for name, f in ways:
        try:
            c = f(v)
        except Exception as e:  # noqa: BLE001
            probs.append((f"{name} raises {type(e).__name__}", want, f"{type(e).__name__}: {e}"))
            continue
        got = describe(c)
        if got != want or not (c == v) or type(c) is not type(v):
            probs.append((f"{name} yields a different object", want, got))
    return probs


def pairs_shard(args):
    _, i, tier = args
    part = par.Part()
    vals = build_values()
    dx, fx = vals[i]
    x = fx()
    for dy, fy in vals:
        y = fy()
        part.count((dx, dy))
        part["evals"] += len(OPS) + 3
        for sig, exp, obs in pair_problems(x, y):
            kinds = f"{type(x).__name__} vs {type(y).__name__}"
            part.violation(f"{sig} [{kinds}]", {"kind": "c16pair", "x": dx, "y": dy}, exp, obs)
    if type(x) is not str:
        part.count(("copy", dx))
        part["evals"] += 8
        for sig, exp, obs in copy_problems(x):
            validated = "" if "*" not in dx else " (built with allow_invalid)"
            part.violation(f"{sig} [{type(x).__name__}{validated}]", {"kind": "c16copy", "x": dx}, exp, obs)
        # ... and once more for a fresh object whose properties were all read and whose validations
        # were run before it is copied
        part.count(("copy-after-use", dx))
        part["evals"] += 8
        for sig, exp, obs in copy_problems(fx(), touched=True):
            validated = "" if "*" not in dx else " (built with allow_invalid)"
            part.violation(f"{sig} [{type(x).__name__}{validated}, after its properties were read and it was validated]",
                           {"kind": "c16copy", "x": dx, "touched": True}, exp, obs)
        part.stat("objects_copied")
    if i == 3:
        part.sample({"pair": [dx, vals[7][0]], "operators": list(OPS) + ["hash", "dict", "set"]})
    return part.done()


def sort_shard(args):
    _, chunk, tier = args
    part = par.Part()
    vals = build_values()
    for idx in chunk:
        trip = [vals[j] for j in idx]
        objs = [f() for _, f in trip]
        for perm in itertools.permutations(range(3)):
            seq = [objs[k] for k in perm]
            part.count(("sort", idx, perm))
            try:
                got = [str(v) for v in sorted(seq)]
            except Exception as e:  # noqa: BLE001
                got = f"raises {type(e).__name__}"
            exp = sorted(str(v) for v in seq)
            if got != exp:
                part.violation("sorted() differs from sorting the strings",
                               {"kind": "c16sort", "values": [trip[k][0] for k in perm]}, exp, got)
    return part.done()


def xproc_dump():
    """Child under one hash seed: build every object, hash it (as a set / dict would), pickle all."""
    import base64
    import sys
    vals = build_values()
    objs = [(d, f()) for d, f in vals if not d.startswith("str:")]
    for _, o in objs:
        hash(o)
        {o: 1}
    # one pickle per object: an object that cannot be pickled is reported, not a crash of the harness
    blobs = []
    for d, o in objs:
        try:
            blobs.append((d, pickle.dumps(o)))
        except Exception as e:  # noqa: BLE001
            blobs.append((d, f"pickle.dumps raises {type(e).__name__}"))
    sys.stdout.write("DUMP=" + base64.b64encode(pickle.dumps(blobs)).decode() + "\n")


def xproc_load():
    """Child under another hash seed: unpickle and check string-value semantics of the copies."""
    import base64
    import json
    import sys
    blobs = pickle.loads(base64.b64decode(sys.stdin.read().strip()[5:]))
    fresh = dict(build_values())
    bad = []
    objs = []
    for d, blob in blobs:
        if isinstance(blob, str):
            bad.append([d, blob])
            continue
        try:
            objs.append((d, pickle.loads(blob)))
        except Exception as e:  # noqa: BLE001
            bad.append([d, f"unpickling in another process raises {type(e).__name__}"])
    for d, o in objs:
        s = str(o)
        f = fresh[d]()
        if hash(o) != hash(s) or hash(o) != hash(f):
            bad.append([d, "hash differs from the string's after unpickling in another process"])
        elif {s: 1}.get(o) != 1 or (f not in {o}) or not (o == f):
            bad.append([d, "unpickled object is not found under its string / an equal object"])
        elif describe(o) != describe(f):
            bad.append([d, "unpickled object differs from a freshly built one"])
    sys.stdout.write("LOAD=" + json.dumps({"n": len(blobs), "bad": bad}) + "\n")


def xproc_shard(args):
    import json
    import os
    import subprocess
    import sys
    part = par.Part()
    for seed_a, seed_b in (("101", "202"), ("0", "random")):
        env = dict(os.environ, PYTHONHASHSEED=seed_a)
        p1 = subprocess.run([sys.executable, "-c", "from mc.props.c16 import xproc_dump; xproc_dump()"],
                            capture_output=True, text=True, env=env, cwd=str(report.VERIF), timeout=300)
        line = [ln for ln in p1.stdout.splitlines() if ln.startswith("DUMP=")]
        if p1.returncode != 0 or not line:
            raise report.HarnessError("cross-process dump failed: " + p1.stderr[-800:])
        env = dict(os.environ, PYTHONHASHSEED=seed_b)
        p2 = subprocess.run([sys.executable, "-c", "from mc.props.c16 import xproc_load; xproc_load()"],
                            input=line[-1], capture_output=True, text=True, env=env, cwd=str(report.VERIF),
                            timeout=300)
        out = [ln for ln in p2.stdout.splitlines() if ln.startswith("LOAD=")]
        if p2.returncode != 0 or not out:
            raise report.HarnessError("cross-process load failed: " + p2.stderr[-800:])
        res = json.loads(out[-1][5:])
        part["evals"] += res["n"]
        for i in range(res["n"]):
            part.seen.add(hash(("xproc", seed_a, seed_b, i)))
        for d, what in res["bad"]:
            part.violation(f"{what} [{d.split(':')[0]}]", {"kind": "c16xproc", "x": d, "hash_seeds": [seed_a, seed_b]},
                           "string-value semantics", what)
        part.stat("cross_process_pickle_runs")
    return part.done()


def shard(args):
    if args[0] == "xproc":
        return xproc_shard(args)
    return pairs_shard(args) if args[0] == "pairs" else sort_shard(args)


def replay(case: dict) -> dict:
    if case["kind"] == "c16xproc":
        part = xproc_shard(("xproc", "quick"))
        hit = [v for v in part["violations"] if v["case"]["x"] == case["x"]]
        return {"ok": not hit, "observed": hit[0]["observed"] if hit else None}
    vals = dict(build_values())
    if case["kind"] == "c16pair":
        probs = pair_problems(vals[case["x"]](), vals[case["y"]]())
    elif case["kind"] == "c16copy":
        probs = copy_problems(vals[case["x"]](), touched=bool(case.get("touched")))
    else:
        seq = [vals[d]() for d in case["values"]]
        try:
            got = [str(v) for v in sorted(seq)]
        except Exception as e:  # noqa: BLE001
            got = f"raises {type(e).__name__}"
        exp = sorted(str(v) for v in seq)
        probs = [] if got == exp else [("sorted", exp, got)]
    return {"ok": not probs, "observed": [(p[0], p[2]) for p in probs], "expected": [p[1] for p in probs]}


def main(tier: str) -> int:
    run = report.Run(PID, tier, "exploration", RULE)
    vals = build_values()
    n = len(vals)
    shards = [("pairs", i, tier) for i in range(n)]
    if tier == "thorough":
        pool = list(range(n))
    else:
        pool = [i for i, (d, _) in enumerate(vals) if any(k in d for k in (
            "'A'", "'a'", "'ß'", "'DE89370400440532013000'", "'de89370400440532013000'",
            "'GENODEM1GLS'", "'370400440532013000'"))][:16]
    shards.append(("xproc", tier))
    trips = list(itertools.combinations(pool, 3))
    shards += [("sort", trips[i:i + 400], tier) for i in range(0, len(trips), 400)]
    par.run_shards(run, shard, shards)
    run.exhaustive = True
    run.extra.update({"values": n, "texts": TEXTS, "sorted_triples": len(trips),
                      "exhaustive_note": "all ordered pairs of the value set; all 3-subsets of the "
                                         "stated pool in all 6 orders",
                      "pickle_protocols": list(range(pickle.HIGHEST_PROTOCOL + 1))})
    run.assumptions += ["reference = Python's str semantics on the compact strings"]
    return run.finish(replay)
