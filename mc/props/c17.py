"""C17 - the bundled country and bank data are internally consistent."""
from __future__ import annotations

from .. import lib
from ..engine import bases, par, report
from ..ref import bic as rb
from ..ref import lookup, nat, reg
from . import c12

PID = "C17"
RULE = ("every country entry and every bank entry of whatever data the working tree bundles, read by "
        "R-REG (no counts hard-coded): structure string parses and describes exactly bban_length; "
        "iban_length == bban_length + 4 <= 34; every position range inside the BBAN, ranges pairwise "
        "disjoint; bic_lookup_components / default_* refer to defined fields and defaults fit; the "
        "library's effective table equals R-REG's; every registered national algorithm belongs to a "
        "country of the table, computes digits of the width of the country's check field and is "
        "total (no foreign exception) on all bases; every bank entry: required keys, country in "
        "table, BIC empty or valid (reference and library), bank code empty or of the width and "
        "classes of the country's lookup span, the IBAN built around it is accepted and .bank/.bic "
        "find the entry again. One case = one (entry, obligation) pair; all are distinct and "
        "non-trivial; the enumeration is exhaustive over the bundled data.")
REQUIRED_BANK_KEYS = ("country_code", "bank_code", "bic", "name", "short_name", "primary")


def country_problems(code: str):
    c = reg.countries()[code]
    spec = c.spec
    out = []
    n = 0

    def ob(cond, sig, exp, obs):
        nonlocal n
        n += 1
        if not cond:
            out.append((sig, exp, obs))

    ob(len(code) == 2 and code.isascii() and code.isalpha() and code.isupper(), "country-key-not-alpha2",
       "two ASCII upper-case letters", code)
    ob(c.tokens is not None, "structure-string-unparseable", "n!a|c|n|e tokens", c.bban_spec)
    if c.tokens is not None:
        fixed = all(f for _, f, _ in c.tokens)
        total = sum(k for k, _, _ in c.tokens)
        ob(fixed and total == c.bban_length, "structure-length-differs-from-bban_length",
           c.bban_length, (c.bban_spec, total))
    ob(isinstance(c.bban_length, int) and isinstance(c.iban_length, int)
       and c.iban_length == c.bban_length + 4, "iban_length-not-bban_length+4",
       (c.bban_length or 0) + 4, c.iban_length)
    ob(isinstance(c.iban_length, int) and c.iban_length <= 34, "iban_length-exceeds-34", "<= 34", c.iban_length)
    spans = sorted((tuple(v), k) for k, v in c.positions.items())
    for (s, name) in spans:
        ob(name in reg.COMPONENTS, f"unknown-component-name", reg.COMPONENTS, name)
        ob(len(s) == 2 and all(isinstance(x, int) for x in s) and 0 <= s[0] < s[1] <= (c.bban_length or 0),
           "position-outside-bban", f"0 <= start < end <= {c.bban_length}", (name, s))
    for i, (a, na) in enumerate(spans):
        for b, nb in spans[i + 1:]:
            ob(not (a[0] < b[1] and b[0] < a[1]), "positions-overlap", "disjoint", ((na, a), (nb, b)))
    for comp in spec.get("bic_lookup_components", []):
        ob(comp in c.positions, "bic_lookup_component-undefined", sorted(c.positions), comp)
    for k, v in spec.items():
        if k.startswith("default_"):
            comp = k[len("default_"):]
            ob(comp in c.positions, "default-for-undefined-field", sorted(c.positions), k)
            if comp in c.positions and c.classes:
                s = c.positions[comp]
                ob(isinstance(v, str) and len(v) == s[1] - s[0]
                   and all(ch in reg.CLASS_CHARS[cl] for ch, cl in zip(v, c.classes[s[0]:s[1]])),
                   "default-does-not-fit-field", (s, c.classes[s[0]:s[1]]), v)
    # the library's effective entry equals the reference's merged entry
    libspec = lib.registry.get("iban").get(code)
    ob(libspec is not None and {k: v for k, v in libspec.items() if k != "regex"} == spec,
       "library-table-differs-from-reference-merge", spec,
       None if libspec is None else {k: v for k, v in libspec.items() if k != "regex"})
    return out, n


def algorithm_problems():
    out, n = [], 0
    table = reg.countries()
    notes = []
    for key, algo in sorted(lib.checksum.algorithms.items()):
        cc, _, name = key.partition(":")
        n += 1
        if cc not in table:
            out.append(("algorithm-registered-for-country-not-in-table", sorted(table)[:5] + ["..."], key))
            continue
        c = table[cc]
        if name != "default":
            continue
        undefined = [str(getattr(a, "value", a)) for a in algo.accepts
                     if str(getattr(a, "value", a)) not in c.positions]
        if undefined:
            notes.append(f"{key} lists {undefined}, which {cc} does not define (delivered as '')")
        span = c.span("national_checksum_digits")
        for f in bases.FILLERS:
            b = bases.bban(c, f)
            n += 1
            comps = [c.component(b, str(getattr(a, "value", a))) for a in algo.accepts]
            k, v = lib.outcome(algo.compute, comps)
            if k == "foreign":
                out.append((f"algorithm-not-total:{key}", "result or library error", (b, v)))
            elif k == "ok" and v != "":
                if span is None:
                    # e.g. IS: the digit is part of another field and never written; the statement
                    # does not forbid that - reported, not judged
                    if f == "distinct":
                        notes.append(f"{key} computes {v!r} although {cc} has no national_checksum_digits field")
                elif len(v) != span[1] - span[0]:
                    out.append((f"computed-digits-do-not-fit-check-field:{key}", span, (b, v)))
            n += 1
            k, v = lib.iban_parse(bases.iban_text(cc, b), True)
            if k == "foreign":
                out.append((f"national-validation-not-total:{key}", "result or library error", (b, v)))
    return out, n, notes


def bank_problems(i: int, e: dict, index: dict):
    out, n = [], 0

    def ob(cond, sig, exp, obs):
        nonlocal n
        n += 1
        if not cond:
            out.append((sig, exp, obs))

    for k in REQUIRED_BANK_KEYS:
        ob(k in e, f"bank-entry-lacks-key:{k}", REQUIRED_BANK_KEYS, sorted(e))
    if any(k not in e for k in REQUIRED_BANK_KEYS):
        return out, n
    ob(isinstance(e["primary"], bool), "primary-not-boolean", "bool", e["primary"])
    cc = e["country_code"]
    c = reg.countries().get(cc)
    ob(c is not None, "bank-country-not-in-table", "country of the table", cc)
    b = e["bic"]
    if b:
        ob(rb.accept(b) and b == rb.normalise(b), "bank-bic-invalid", "valid compact BIC", b)
        ob(lib.bic_parse(b)[0] == "ok", "bank-bic-rejected-by-library", "accepted", lib.bic_parse(b))
    code = e["bank_code"]
    if code and c is not None and c.positions:
        spans = [c.span(comp) for comp in c.lookup_components]
        if all(spans):
            width = sum(s[1] - s[0] for s in spans)
            classes = [cl for s in spans for cl in c.classes[s[0]:s[1]]]
            ob(len(code) == width, "bank-code-width-differs-from-lookup-field", width, code)
            if len(code) == width:
                ob(all(ch in reg.CLASS_CHARS[cl] for ch, cl in zip(code, classes)),
                   "bank-code-violates-field-classes", "".join(classes), code)
                text = c12.build_iban(cc, code)
                ob(text is not None, "no-IBAN-can-carry-this-bank-code", "buildable", code)
                if text is not None:
                    k, o = lib.outcome(lib.IBAN, text)
                    ob(k == "ok", "IBAN-around-bank-rejected", "accepted", (text, k, o))
                    if k == "ok":
                        first = index[(cc, code)][0]
                        kk, bank_ = lib.outcome(lambda: o.bank)
                        ob(kk == "ok" and bank_ == first and bank_.get("bank_code") == code,
                           "bank-not-found-again-from-IBAN", first, bank_)
                        for sig, e2, o2 in c12.generated_iban_problems(index, cc, code):
                            ob(False, sig, e2, o2)
                        n += 1
                        cands = lookup.candidates(cc, code)
                        kb, got = lib.outcome(lambda: o.bic)
                        if kb != "ok":
                            ob(False, "iban.bic-raises-for-a-listed-bank", "BIC or None", (kb, got))
                            got = None
                            cands = None
                        if cands is None:
                            pass
                        elif cands:
                            ob(got is not None and lookup.selection_ok(cands, str(got)),
                               "bic-not-found-again-from-IBAN", cands, None if got is None else str(got))
                        else:
                            ob(got is None, "bic-from-IBAN-although-bank-lists-none", None, str(got))
    return out, n


def activity_shard():
    """The API prelude, then the per-entry obligations for every 7th bank entry once more: every
    listed bank must still be found again from its IBAN after the library has been used."""
    from ..engine import activity
    part = par.Part()
    part.stat("prelude_calls", activity.exercise_api(report.SEED))
    banks = reg.bank_list()
    index = lookup.by_key()
    for i in range(0, len(banks), 7):
        probs, n = bank_problems(i, banks[i], index)
        part["evals"] += n
        part.seen.update(hash(("after", i, j)) for j in range(n))
        for sig, exp, obs in probs:
            part.violation(sig + " [after API activity]", {"kind": "c17bank", "index": i, "entry": banks[i]},
                           exp, obs)
    return part.done()


def shard(args):
    kind, key = args
    if kind == "activity":
        return activity_shard()
    part = par.Part()
    if kind == "country":
        probs, n = country_problems(key)
        part["evals"] += n
        part.seen.update(hash((key, i)) for i in range(n))
        for sig, exp, obs in probs:
            part.violation(sig, {"kind": "c17country", "country": key}, exp, obs)
        part.stat("country_entries")
    elif kind == "algorithms":
        probs, n, notes = algorithm_problems()
        part["evals"] += n
        part.seen.update(hash(("algo", i)) for i in range(n))
        for sig, exp, obs in probs:
            part.violation(sig, {"kind": "c17algo"}, exp, obs)
        part.stat("algorithm_keys", len(lib.checksum.algorithms))
        part.sample({"notes_not_judged": notes})
    else:
        index = lookup.by_key()
        banks = reg.bank_list()
        lo, hi = key
        for i in range(lo, hi):
            probs, n = bank_problems(i, banks[i], index)
            part["evals"] += n
            part.seen.update(hash((i, j)) for j in range(n))
            for sig, exp, obs in probs:
                part.violation(sig, {"kind": "c17bank", "index": i, "entry": banks[i]}, exp, obs)
        part.stat("bank_entries", hi - lo)
        if lo == 0:
            part.sample({"bank_entry": banks[0], "iban_built_around_it": c12.build_iban(
                banks[0].get("country_code"), banks[0].get("bank_code", ""))})
    return part.done()


def replay(case: dict) -> dict:
    if case["kind"] == "c17country":
        probs, _ = country_problems(case["country"])
    elif case["kind"] == "c17algo":
        probs, _, _ = algorithm_problems()
    else:
        probs, _ = bank_problems(case["index"], reg.bank_list()[case["index"]], lookup.by_key())
    return {"ok": not probs, "observed": [(p[0], p[2]) for p in probs], "expected": [p[1] for p in probs]}


def main(tier: str) -> int:
    run = report.Run(PID, tier, "exploration", RULE)
    countries = sorted(reg.countries())
    nb = len(reg.bank_list())
    step = 1500
    shards = [("activity", None)] + [("country", c) for c in countries] + [("algorithms", None)]
    shards += [("banks", (i, min(nb, i + step))) for i in range(0, nb, step)]
    par.run_shards(run, shard, shards)
    run.exhaustive = True
    # reported, not judged
    cs = reg.countries()
    iban_spec_mismatch = sorted(k for k, c in cs.items()
                                if c.spec.get("iban_spec") != f"{k}2!n{c.bban_spec}")
    run.extra.update({"countries": len(countries), "bank_entries": nb,
                      "algorithm_keys": len(lib.checksum.algorithms),
                      "reported_not_judged": {
                          "iban_spec_differs_from_country+2!n+bban_spec": iban_spec_mismatch,
                          "entries_without_country_echo": sorted(k for k, c in cs.items() if "country" not in c.spec)}})
    run.assumptions += ["'structure string' = bban_spec (the one the library validates with); iban_spec and "
                        "the country echo field are unused by the library and only reported",
                        "'reads only fields the country defines' is judged behaviourally: the algorithm "
                        "must be total on all bases (an undefined field is delivered as '')"]
    return run.finish(replay)
