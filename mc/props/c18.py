"""C18 - registry files compose in name order: deep later-wins merge, list concatenation."""
from __future__ import annotations

import copy
import itertools
import json
import os
import pathlib
import shutil
import subprocess
import sys
import tempfile

from .. import lib
from ..engine import par, report, sandbox
from ..ref import iban as ri
from ..ref import lookup, reg

PID = "C18"
RULE = ("(a) registry.merge_dicts on ALL ordered pairs of nested documents (keys from {a,b,c}, depth <= 3, "
        "leaves 1 / 's' / [1] / {} / null) with <= N nodes (N=3 quick, 4 thorough) and all left-folded "
        "triples of the <= 2-node documents, against the reference merge, inputs compared with deep "
        "copies afterwards; (b) the real loader in the in-process sandbox: all sets of <= 3 IBAN registry "
        "files drawn from {bundled generated, bundled overwrite, 5 overlay documents} x all assignments "
        "of overlay file names (sorting before / between / after the bundled names, upper case, digit) x "
        "ALL directory-listing permutations; bank registry: list files with a v2 file first / middle / "
        "last and all v2 documents with <= 2 entries x <= 2 codes; then validation / generation / "
        "lookup through the public API on the effective data; (c) a scratch copy of the package with "
        "overlay files imported by a fresh interpreter. Oracle: R-REG's merge, concatenation and v2 "
        "expansion over the same files; overlay changes exactly the leaf paths it names. distinct = "
        "distinct (documents, names, listing order) configurations resp. document pairs.")

LEAVES = [1, "s", [1], {}, None]
KEYS = ["a", "b", "c"]


# ------------------------------------------------------------------ (a) merge_dicts
def docs_with_nodes(n: int, depth: int = 3):
    """All dict documents with exactly n nodes (a node = one key), nesting depth <= ``depth``."""
    if n == 0:
        return [{}]
    out = []

    def values(k, d):
        """all values that consume k nodes below one key"""
        vs = []
        if k == 0:
            vs += [copy.deepcopy(x) for x in LEAVES]
        elif d > 1:
            vs += [doc for doc in build(k, d - 1)]
        return vs

    def build(k, d):
        # dict documents with exactly k nodes, depth <= d  (k >= 1)
        res = []

        def rec(keys_left, nodes_left, cur):
            if nodes_left == 0:
                if cur:
                    res.append(copy.deepcopy(cur))
                return
            for i, key in enumerate(keys_left):
                for sub in range(0, nodes_left):
                    for v in values(sub, d):
                        cur[key] = v
                        rec(keys_left[i + 1:], nodes_left - 1 - sub, cur)
                        del cur[key]
        rec(KEYS, k, {})
        return res

    out = build(n, depth)
    return out


def all_docs(max_nodes: int):
    docs = [{}]
    for n in range(1, max_nodes + 1):
        docs += docs_with_nodes(n)
    # deeply nested chains (levels 4 and 5) with and without a sibling at every level
    def chain(depth, leaf, sibling):
        d = leaf
        for lvl in range(depth):
            d = {"a": d, **({"b": lvl} if sibling else {})}
        return d
    for depth in (4, 5):
        for leaf in (1, {"c": 2}, [1], None):
            for sib in (False, True):
                docs.append(chain(depth, leaf, sib))
    docs.append({"a": {"a": {"a": {"b": 7}}}})
    docs.append({"a": {"a": {"a": {"a": {"c": 9}, "b": 0}}}})
    # de-duplicate
    seen, out = set(), []
    for d in docs:
        k = json.dumps(d, sort_keys=True)
        if k not in seen:
            seen.add(k)
            out.append(d)
    return out


# the same documents once more with the key names the registry files really use (a merge that treats
# some key names specially is not a deep later-wins merge)
REAL_KEYS = {"a": "positions", "b": "bban_spec", "c": "bank_code"}


def renamed(doc, names):
    if isinstance(doc, dict):
        return {names.get(k, k): renamed(v, names) for k, v in doc.items()}
    return doc


def merge_shard(args):
    _, lo, hi, max_nodes = args[:4]
    part = par.Part()
    docs = all_docs(max_nodes)
    if len(args) > 4 and args[4] == "real-keys":
        docs = [renamed(d, REAL_KEYS) for d in docs]
    merge = lib.registry.merge_dicts
    for i in range(lo, hi):
        left = docs[i]
        for right in docs:
            l, r = copy.deepcopy(left), copy.deepcopy(right)
            part.count((i, json.dumps(right, sort_keys=True)) + tuple(args[4:]))
            try:
                got = merge(l, r)
            except Exception as e:  # noqa: BLE001
                part.violation(f"merge_dicts raises {type(e).__name__}", {"kind": "c18merge", "left": left,
                               "right": right}, reg.ref_merge(left, right), repr(e))
                continue
            exp = reg.ref_merge(left, right)
            if got != exp:
                part.violation("merge_dicts differs from the deep later-wins merge",
                               {"kind": "c18merge", "left": left, "right": right}, exp, got)
            if l != left or r != right:
                part.violation("merge_dicts modifies its inputs", {"kind": "c18merge", "left": left,
                               "right": right}, (left, right), (l, r))
    if lo == 0:
        part.sample({"merge_pair": [docs[len(docs) // 2], docs[len(docs) // 3]]})
    part.stat("merge_left_documents", hi - lo)
    return part.done()


def merge3_shard(args):
    _, lo, hi = args
    part = par.Part()
    small = all_docs(2)
    merge = lib.registry.merge_dicts
    for ia in range(lo, hi):
        a = small[ia]
        for ib, b in enumerate(small):
            ab_exp = reg.ref_merge(a, b)
            for ic, c in enumerate(small):
                part.count(("triple", ia, ib, ic))
                got = merge(merge(copy.deepcopy(a), copy.deepcopy(b)), copy.deepcopy(c))
                exp = reg.ref_merge(ab_exp, c)
                if got != exp:
                    part.violation("three documents folded left differ from the reference",
                                   {"kind": "c18merge3", "docs": [a, b, c]}, exp, got)
    part.stat("merge_triples_first_documents", hi - lo)
    return part.done()


# ------------------------------------------------------------------ (b) loader, IBAN registry
NEW = "XZ"
OVERLAYS = {
    "O_add": {NEW: {"bban_spec": "4!n6!c", "iban_spec": "XZ2!n4!n6!c", "bban_length": 10, "iban_length": 14,
                    "in_sepa_zone": False,
                    "positions": {"bank_code": [0, 4], "account_code": [4, 10]}}},
    "O_scalar": {"DE": {"in_sepa_zone": False}},
    "O_position": {"GB": {"positions": {"account_code": [12, 18]}}},
    "O_scalar_over_dict": {"FR": {"positions": 7}},
    "O_dict_over_scalar": {"IT": {"country": {"x": 1}}, "DE": {"positions": {"bank_code": [0, 8]}}},
    # a dict again where an earlier overlay put a scalar (dict / scalar / dict sandwich over three files)
    "O_dict_again": {"FR": {"positions": {"bank_code": [0, 5]}}},
    # a changed structure string together with a PARTIAL position table, in one entry
    "O_spec_and_positions": {"DE": {"bban_spec": "8!n10!c", "positions": {"account_code": [8, 18]}},
                             "GB": {"bban_spec": "4!a6!n8!c", "positions": {"branch_code": [4, 10]}}},
    # countries with special keys (PL, SI: bic_lookup_components) mentioned for ANOTHER reason
    "O_touch_special": {"PL": {"in_sepa_zone": True, "note": "x"}, "SI": {"in_sepa_zone": True}},
    # a country made longer without naming positions: the tail behind the last field is reserved
    "O_longer": {"NL": {"bban_spec": "4!a12!n", "iban_spec": "NL2!n4!a12!n", "bban_length": 16, "iban_length": 20}},
    # keys that differ from an existing one only by case are NEW keys
    "O_lower_key": {"de": {"bban_length": 1, "iban_length": 5, "bban_spec": "1!n"}, "Xx": {"bban_length": 2, "iban_length": 6, "bban_spec": "2!a", "in_sepa_zone": True}},
}
# "zz-site.json" < "zz.json" in file-name order ('-' < '.'), but "zz" < "zz-site" by stem
OVERLAY_NAMES = ["00_first.json", "Generated.json", "h_between.json", "zz-site.json", "zz.json", ".site.json"]


def bundled_docs():
    d = pathlib.Path(lib.schwifty.__file__).parent / "iban_registry"
    return {p.name: json.loads(p.read_text(encoding="utf-8")) for p in d.glob("*.json")}


def leaf_paths(doc, prefix=()):
    out = []
    for k, v in doc.items():
        if isinstance(v, dict) and v:
            out += leaf_paths(v, prefix + (k,))
        else:
            out.append(prefix + (k,))
    return out


def flat(doc, prefix=()):
    out = {}
    for k, v in doc.items():
        if isinstance(v, dict) and v:
            out.update(flat(v, prefix + (k,)))
        else:
            out[prefix + (k,)] = v
    return out


def strip_regex(table):
    return {k: {kk: vv for kk, vv in v.items() if kk != "regex"} if isinstance(v, dict) else v
            for k, v in table.items()}


def ref_table(files: dict):
    data = None
    for name in sorted(files):
        data = copy.deepcopy(files[name]) if data is None else reg.ref_merge(data, files[name])
    return data


def api_checks(files: dict, table: dict):
    """Validation / generation / decomposition follow the effective data."""
    probs = []
    if NEW in table and isinstance(table[NEW], dict) and table[NEW].get("bban_length") == 10:
        bban = "1234A5B6C7"
        text = NEW + ri.check_digits(NEW, bban) + bban
        k, o = lib.outcome(lib.IBAN, text)
        if k != "ok":
            probs.append(("IBAN of overlay-defined country rejected", text, (k, o)))
        else:
            if (o.bank_code, o.account_code, o.branch_code) != ("1234", "A5B6C7", ""):
                probs.append(("components of overlay-defined country wrong", ("1234", "A5B6C7", ""),
                              (o.bank_code, o.account_code, o.branch_code)))
        k, o = lib.outcome(lambda: str(lib.IBAN.generate(NEW, "12", "a5b6c7")))
        if (k, o) != ("ok", NEW + ri.check_digits(NEW, "0012A5B6C7") + "0012A5B6C7"):
            probs.append(("generate for overlay-defined country wrong", "XZ..0012A5B6C7", (k, o)))
        bad = NEW + ri.check_digits(NEW, "12345B6C7A") + "A2345B6C71"
        if lib.iban_parse(bad)[0] == "ok" or lib.iban_parse(text + "0")[0] == "ok":
            probs.append(("overlay-defined structure/length not enforced", "reject", bad))
    elif NEW not in table:
        if lib.iban_parse(NEW + "96" + "1234A5B6C7")[0] == "ok":
            probs.append(("IBAN of undefined country accepted", "reject", NEW))
    de = table.get("DE")
    if isinstance(de, dict) and "bban_length" in de and isinstance(de.get("positions"), dict):
        k, o = lib.outcome(lib.IBAN, "DE89370400440532013000")
        if k != "ok" or o.in_sepa_zone != de["in_sepa_zone"]:
            probs.append(("in_sepa_zone does not follow the effective data", de["in_sepa_zone"],
                          (k, getattr(o, "in_sepa_zone", None))))
    nl = table.get("NL")
    if isinstance(nl, dict) and nl.get("bban_length") == 16 and isinstance(nl.get("positions"), dict):
        # generation follows the effective LENGTH (fields as published, the uncovered tail zero-filled)
        pos = nl["positions"]
        want_b = ["0"] * 16
        for comp, val in (("bank_code", "ABNA"), ("account_code", "0417164300")):
            a, b = pos[comp]
            want_b[a:b] = list(val.rjust(b - a, "0"))
        want_b = "".join(want_b)
        for how, f in (("generate", lambda: str(lib.IBAN.generate("NL", "ABNA", "0417164300"))[4:]),
                       ("from_components", lambda: str(lib.BBAN.from_components("NL", bank_code="ABNA",
                                                                                account_code="0417164300")))):
            k, o = lib.outcome(f)
            if (k, o) != ("ok", want_b):
                probs.append((f"{how} does not follow the effective length of a lengthened country", want_b, (k, o)))
        k, o = lib.outcome(lambda: len(str(lib.IBAN.random("NL", random=__import__("random").Random(3)))))
        if (k, o) != ("ok", 20):
            probs.append(("random does not follow the effective length of a lengthened country", 20, (k, o)))
        if lib.iban_parse("NL" + ri.check_digits("NL", "ABNA0417164300") + "ABNA0417164300")[0] == "ok":
            probs.append(("old length still accepted for a lengthened country", "reject", "NL..ABNA0417164300"))
    gb = table.get("GB")
    if isinstance(gb, dict) and isinstance(gb.get("positions"), dict) and "bban_length" in gb:
        k, o = lib.outcome(lib.IBAN, "GB29NWBK60161331926819")
        s = gb["positions"]["account_code"]
        if k != "ok" or o.account_code != "NWBK60161331926819"[s[0]:s[1]]:
            probs.append(("account_code does not follow the effective position", s,
                          (k, getattr(o, "account_code", None))))
    return probs


def iban_config_problems(files: dict, listing: list):
    """Load ``files`` ({name: doc}) with directory listing order ``listing`` and compare."""
    probs = []
    exp = ref_table(files)
    try:
        with sandbox.package_data(iban_files=files, listing_order=listing):
            got = strip_regex(lib.registry.get("iban"))
            if got != exp:
                bad = sorted(k for k in set(got) | set(exp) if got.get(k) != exp.get(k))[:4]
                probs.append(("effective country table differs from name-ordered deep merge",
                              {k: exp.get(k) for k in bad}, {k: got.get(k) for k in bad}))
            else:
                probs += api_checks(files, exp)
                # ... and the effective table is still the merge after the library has been used
                # (component reads, lookups and generation for every country, also those without
                # published positions)
                for code, spec in sorted(exp.items()):
                    if not isinstance(spec, dict) or not isinstance(spec.get("bban_length"), int) \
                            or not isinstance(spec.get("positions", {}), dict):
                        continue
                    body = "1" * spec["bban_length"]
                    k, o = lib.outcome(lib.IBAN, code + "00" + body, allow_invalid=True)
                    if k == "ok":
                        for name in ("bank_code", "account_code", "bic", "bank", "national_checksum_digits"):
                            lib.outcome(lambda: getattr(o, name))
                        lib.outcome(o.validate, True)
                    lib.outcome(lib.IBAN.generate, code, "1", "1")
                    lib.outcome(lambda: lib.IBAN.random(code, random=__import__("random").Random(1)))
                got2 = strip_regex(lib.registry.get("iban"))
                if got2 != exp:
                    bad = sorted(k for k in set(got2) | set(exp) if got2.get(k) != exp.get(k))[:4]
                    probs.append(("effective country table changed by library calls",
                                  {k: exp.get(k) for k in bad}, {k: got2.get(k) for k in bad}))
    except Exception as e:  # noqa: BLE001
        # the library's own initialisation may legitimately fail on nonsense such as positions=7 (the raw
        # loader comparison for this file set is made by raw_load_problems in any case)
        nonsense = any(OVERLAYS[k] in files.values() for k in ("O_scalar_over_dict", "O_dict_over_scalar"))
        if not (nonsense and isinstance(e, (AttributeError, TypeError, KeyError))):
            probs.append((f"loader raises {type(e).__name__}", "table", repr(e)))
    return probs


def raw_load_problems(files: dict, listing: list):
    """Loader only (no library initialisation on top): registry.get on the scratch directory."""
    exp = ref_table(files)
    snap = sandbox.snapshot()
    old_files = lib.registry.files
    tmp = pathlib.Path(tempfile.mkdtemp(prefix="verif_c18_"))
    try:
        d = tmp / "iban_registry"
        d.mkdir()
        for name, doc in files.items():
            (d / name).write_text(json.dumps(doc), encoding="utf-8")
        sandbox.OrderedDir._order = listing
        lib.registry.files = lambda _pkg: sandbox.OrderedDir(tmp)
        lib.registry._registry.pop("iban", None)
        k, got = lib.outcome(lib.registry.get, "iban")
        if k != "ok":
            return [(f"loader raises {got}", "table", (k, got))]
        if got != exp:
            bad = sorted(x for x in set(got) | set(exp) if got.get(x) != exp.get(x))[:4]
            return [("effective country table differs from name-ordered deep merge",
                     {x: exp.get(x) for x in bad}, {x: got.get(x) for x in bad})]
        return []
    finally:
        lib.registry.files = old_files
        sandbox.OrderedDir._order = None
        sandbox.restore(snap)
        shutil.rmtree(tmp, ignore_errors=True)


def overlay_effect_problems(files: dict, overlay_name: str):
    """Differential form: with vs without the (last-sorting) overlay file, the effective tables
    differ exactly at the leaf paths the overlay names."""
    without = {k: v for k, v in files.items() if k != overlay_name}
    if not without:
        return []
    res = []
    tables = []
    for fs in (files, without):
        snap = sandbox.snapshot()
        old_files = lib.registry.files
        tmp = pathlib.Path(tempfile.mkdtemp(prefix="verif_c18_"))
        try:
            d = tmp / "iban_registry"
            d.mkdir()
            for name, doc in fs.items():
                (d / name).write_text(json.dumps(doc), encoding="utf-8")
            lib.registry.files = lambda _pkg, tmp=tmp: sandbox.OrderedDir(tmp)
            lib.registry._registry.pop("iban", None)
            k, got = lib.outcome(lib.registry.get, "iban")
            if k != "ok":
                return [(f"loader raises {got} for a non-empty registry directory", sorted(fs), (k, got))]
            tables.append(copy.deepcopy(got))
        finally:
            lib.registry.files = old_files
            sandbox.restore(snap)
            shutil.rmtree(tmp, ignore_errors=True)
    fa, fb = flat(tables[0]), flat(tables[1])
    named = leaf_paths(files[overlay_name])
    for path in set(fa) | set(fb):
        if fa.get(path, "<absent>") != fb.get(path, "<absent>"):
            if not any(path[:len(n)] == n or n[:len(path)] == path for n in named):
                res.append(("overlay changes a key it does not name", named, path))
    for n in named:
        v = files[overlay_name]
        for k in n:
            v = v[k]
        cur = tables[0]
        try:
            for k in n:
                cur = cur[k]
        except (KeyError, TypeError):
            cur = "<absent>"
        if cur != v:
            res.append(("overlay value not effective although the overlay sorts last", (n, v), cur))
    return res


def iban_loader_shard(args):
    _, chosen, tier = args
    part = par.Part()
    bundled = bundled_docs()
    pool = {**{n: ("bundled", d) for n, d in bundled.items()}, **{n: ("overlay", d) for n, d in OVERLAYS.items()}}
    overlays = [n for n in chosen if pool[n][0] == "overlay"]
    fixed = {n: pool[n][1] for n in chosen if pool[n][0] == "bundled"}
    assignments = list(itertools.permutations(OVERLAY_NAMES, len(overlays)))
    if tier == "quick" and len(overlays) == 3:
        assignments = assignments[::5]   # 24 of the 120 file-name assignments (all of them in the thorough tier)
    for names in assignments:
        files = dict(fixed)
        for o, nm in zip(overlays, names):
            files[nm] = OVERLAYS[o]
        full = len(fixed) == len(bundled)
        names_sorted = sorted(files)
        if tier == "quick" and len(files) == 3 and not fixed:
            # three overlay-only files: first / reversed / rotated listing (all 6 in the thorough tier)
            listings = [tuple(names_sorted), tuple(reversed(names_sorted)), tuple(names_sorted[1:] + names_sorted[:1])]
        else:
            listings = list(itertools.permutations(names_sorted))
        for listing in listings:
            part.count((tuple(chosen), names, listing))
            probs = raw_load_problems(files, list(listing))
            for sig, exp, obs in probs:
                part.violation(sig, {"kind": "c18iban", "files": files, "listing": list(listing)}, exp, obs)
            part.stat("iban_loader_configurations")
        if full:
            part["evals"] += 1
            part.stat("iban_api_configurations")
            for sig, exp, obs in iban_config_problems(files, sorted(files, reverse=True)):
                part.violation(sig + " [api]", {"kind": "c18ibanapi", "files": files,
                                                "listing": sorted(files, reverse=True)}, exp, obs)
        last = sorted(files)[-1]
        if last in names:
            part["evals"] += 1
            for sig, exp, obs in overlay_effect_problems(files, last):
                part.violation(sig, {"kind": "c18overlay", "files": files, "overlay": last}, exp, obs)
            part.stat("overlay_differentials")
    if chosen == ("generated.json", "overwrite.json", "O_add"):
        part.sample({"iban_files": ["generated.json", "overwrite.json", "zz.json <- O_add"],
                     "listing_orders": 6})
    return part.done()


# ------------------------------------------------------------------ (b) loader, bank registry
def v2_documents(tier: str):
    codes_alpha = [[], ["1000"], ["1000", "2000"], ["2000", "1000"], ["1000", "1000"]]
    entries = []
    for bic in ("", "AAAADEAA"):
        for prim in (None, True, False):
            for codes in codes_alpha:
                e = {"country_code": "DE", "bic": bic, "name": "n" + bic[:1], "short_name": "s",
                     "bank_codes": codes}
                if prim is not None:
                    e["primary"] = prim
                entries.append(e)
    docs = [{"expand_from": "bank_codes", "expand_into": "bank_code", "entries": []}]
    for e in entries:
        docs.append({"expand_from": "bank_codes", "expand_into": "bank_code", "entries": [e]})
    pairs = entries if tier == "thorough" else entries[::4]
    for a, b in itertools.product(pairs, repeat=2):
        docs.append({"expand_from": "bank_codes", "expand_into": "bank_code", "entries": [a, b]})
    # entries that carry keys the library does not know (they are data like any other)
    docs.append({"expand_from": "bank_codes", "expand_into": "bank_code", "entries": [
        {"country_code": "DE", "bic": "AAAADEAA", "name": "extra", "short_name": "e", "bank_codes": ["1000", "4000"],
         "source": "user", "valid_until": None, "checksum_algo": "00"}]})
    docs.append({"expand_from": "ids", "expand_into": "bank_code",
                 "entries": [{"country_code": "DE", "bic": "", "name": "x", "short_name": "y",
                              "ids": ["3000"], "bank_code": "overwritten"}]})
    return docs


L1 = [{"country_code": "DE", "bank_code": "1000", "bic": "BBBBDEBB", "name": "l1a", "short_name": "a",
       "primary": True},
      {"country_code": "DE", "bank_code": "5000", "bic": "", "name": "l1b", "short_name": "b", "primary": False}]
L2 = [{"country_code": "FR", "bank_code": "2000", "bic": "CCCCFRCCXXX", "name": "l2", "short_name": "c",
       "primary": False, "valid_until": "2030-01-01", "clearing": {"system": "x", "ids": [1, 2]}}]


def bank_config_problems(files: dict, listing: list):
    probs = []
    exp = None
    for name in sorted(files):
        chunk = files[name]
        if name[:-5].endswith("v2"):
            chunk = reg.ref_expand_v2(copy.deepcopy(chunk))
        exp = copy.deepcopy(chunk) if exp is None else exp + copy.deepcopy(chunk)
    try:
        with sandbox.package_data(bank_files=copy.deepcopy(files), listing_order=listing):
            got = lib.registry.get("bank")
            if got != exp:
                probs.append(("effective bank list differs from name-ordered concatenation with v2 expansion",
                              exp, got))
            else:
                from . import c12
                index = lookup.index_by_key(exp)
                for code in ("1000", "2000", "3000", "5000", "9999"):
                    for cc in ("DE", "FR"):
                        for sig, e, o in c12.check_key(index, cc, code):
                            probs.append((sig + " [effective bank data]", {"code": code, "expected": e}, o))
    except Exception as e:  # noqa: BLE001
        probs.append((f"bank loader raises {type(e).__name__}", exp, repr(e)))
    return probs


def bank_loader_shard(args):
    _, lo, hi, tier = args
    part = par.Part()
    docs = v2_documents(tier)
    for i in range(lo, hi):
        v2 = docs[i]
        for v2name in ("00_a.v2.json", "m_b.v2.json", "zz_c.v2.json", "manual_y-a.v2.json"):
            files = {"generated_x.json": L1, "manual_y.json": L2, v2name: v2}
            listings = list(itertools.permutations(sorted(files))) if i % 5 == 0 else [
                sorted(files, reverse=True)]
            for listing in listings:
                part.count((i, v2name, tuple(listing)))
                for sig, exp, obs in bank_config_problems(files, list(listing)):
                    part.violation(sig, {"kind": "c18bank", "files": files, "listing": list(listing)}, exp, obs)
                part.stat("bank_loader_configurations")
    if lo == 0:
        part.sample({"bank_files": ["generated_x.json (2 entries)", "manual_y.json (1 entry)",
                                    "m_b.v2.json"], "v2_document": docs[7]})
    return part.done()


# ------------------------------------------------------------------ (c) end to end
CHILD = r"""
import json, sys
import schwifty
from schwifty import IBAN, BIC, registry
t = {k: {kk: vv for kk, vv in v.items() if kk != "regex"} for k, v in registry.get("iban").items()}
out = {"file": schwifty.__file__, "table": t, "banks": len(registry.get("bank"))}
def oc(f):
    try:
        return ["ok", str(f())]
    except Exception as e:
        return ["raises", type(e).__name__]
out["new_iban"] = oc(lambda: IBAN(sys.argv[1]))
out["new_generate"] = oc(lambda: IBAN.generate("XZ", "12", "a5b6c7"))
out["de_sepa"] = oc(lambda: IBAN("DE89370400440532013000").in_sepa_zone)
out["gb_account"] = oc(lambda: IBAN("GB29NWBK60161331926819").account_code)
out["lookup"] = oc(lambda: BIC.from_bank_code("DE", "99999999"))
out["lookup_candidates"] = oc(lambda: [str(b) for b in BIC.candidates_from_bank_code("DE", "99999999")])
out["de_national"] = oc(lambda: IBAN(sys.argv[3], validate_bban=True))
out["de_bank_name"] = oc(lambda: IBAN(sys.argv[3]).bank_name)
out["bg_bic"] = oc(lambda: IBAN(sys.argv[2]).bic)
out["bg_bank_name"] = oc(lambda: IBAN(sys.argv[2]).bank_name)
out["bg_bban_bic"] = oc(lambda: IBAN(sys.argv[2]).bban.bic)
print("OUT=" + json.dumps(out))
"""


def e2e_problems(cfg):
    name, iban_files, bank_files = cfg
    probs = []
    tmp = pathlib.Path(tempfile.mkdtemp(prefix="verif_c18_pkg_"))
    try:
        shutil.copytree(pathlib.Path(lib.schwifty.__file__).parent, tmp / "schwifty",
                        ignore=shutil.ignore_patterns("__pycache__"))
        for fname, doc in iban_files.items():
            (tmp / "schwifty" / "iban_registry" / fname).write_text(json.dumps(doc), encoding="utf-8")
        for fname, doc in bank_files.items():
            (tmp / "schwifty" / "bank_registry" / fname).write_text(json.dumps(doc), encoding="utf-8")
        exp_table = reg.ref_load_dir(tmp / "schwifty" / "iban_registry")
        exp_banks = reg.ref_load_dir(tmp / "schwifty" / "bank_registry")
        bban = "1234A5B6C7"
        text = NEW + ri.check_digits(NEW, bban) + bban
        env = dict(os.environ, PYTHONPATH=str(tmp))
        bg_bban = "ZZZZ" + "1234" + "10" + "12345678"
        bg_text = "BG" + ri.check_digits("BG", bg_bban) + bg_bban
        from ..ref import bbk
        de_acct = next(a for a in ("1234567890", "1234567891", "1234567892", "1234567893") if bbk.verdict("13", a) is False)
        de_bban = "37040044" + de_acct
        de_text = "DE" + ri.check_digits("DE", de_bban) + de_bban
        p = subprocess.run([sys.executable, "-c", CHILD, text, bg_text, de_text], capture_output=True, text=True, env=env,
                           cwd=str(tmp), timeout=300)
        line = [ln for ln in p.stdout.splitlines() if ln.startswith("OUT=")]
        if p.returncode != 0 or not line:
            return [("fresh interpreter with scratch package failed", "OUT", p.stderr[-800:])]
        out = json.loads(line[-1][4:])
        if not out["file"].startswith(str(tmp)):
            return [("scratch package was not the one imported", str(tmp), out["file"])]
        if out["table"] != json.loads(json.dumps(exp_table)):
            bad = sorted(k for k in set(out["table"]) | set(exp_table) if out["table"].get(k) != exp_table.get(k))
            probs.append(("end-to-end: effective table differs", {k: exp_table.get(k) for k in bad[:3]},
                          {k: out["table"].get(k) for k in bad[:3]}))
        if out["banks"] != len(exp_banks):
            probs.append(("end-to-end: bank list length differs", len(exp_banks), out["banks"]))
        has_new = NEW in exp_table
        if (out["new_iban"][0] == "ok") != has_new:
            probs.append(("end-to-end: IBAN of overlay country", has_new, out["new_iban"]))
        if has_new and out["new_generate"] != ["ok", NEW + ri.check_digits(NEW, "0012A5B6C7") + "0012A5B6C7"]:
            probs.append(("end-to-end: generate for overlay country", "XZ..0012A5B6C7", out["new_generate"]))
        if out["de_sepa"] != ["ok", str(exp_table["DE"]["in_sepa_zone"])]:
            probs.append(("end-to-end: in_sepa_zone", exp_table["DE"]["in_sepa_zone"], out["de_sepa"]))
        s = exp_table["GB"]["positions"]["account_code"]
        if out["gb_account"] != ["ok", "NWBK60161331926819"[s[0]:s[1]]]:
            probs.append(("end-to-end: GB account_code position", s, out["gb_account"]))
        cands = lookup.candidates_in(lookup.index_by_key(exp_banks), "DE", "99999999")
        want = ["ok", str(cands)] if cands is not None else ["raises", "InvalidBankCode"]
        if out["lookup_candidates"] != want:
            probs.append(("end-to-end: candidates for overlay bank", want, out["lookup_candidates"]))
        # national validation of a German IBAN takes the method from the bank the lookup yields: the
        # FIRST entry of the effective (file-name ordered) list for that bank code
        des = lookup.index_by_key(exp_banks).get(("DE", "37040044")) or []
        first = des[0] if des else None
        algo = first.get("checksum_algo") if first else None
        want_nat = "ok" if (algo is None or bbk.verdict(algo, de_acct) is not False) else "raises"
        if out["de_national"][0] != want_nat:
            probs.append(("end-to-end: national validation does not follow the first effective entry of the bank",
                          {"first_entry": first, "expected": want_nat}, out["de_national"]))
        if out["de_bank_name"] != ["ok", str(first["name"] if first else None)]:
            probs.append(("end-to-end: bank name does not follow the first effective entry of the bank",
                          first, out["de_bank_name"]))
        # the bank-identifying key of an IBAN is the listed components JOINED IN THE LISTED ORDER
        bg = exp_table.get("BG", {})
        if isinstance(bg.get("positions"), dict):
            comps = bg.get("bic_lookup_components", ["bank_code"])
            key = "".join(bg_bban[bg["positions"][c][0]:bg["positions"][c][1]] for c in comps)
            index = lookup.index_by_key(exp_banks)
            es = index.get(("BG", key))
            cands = lookup.candidates_in(index, "BG", key)
            want_name = ["ok", str(es[0]["name"] if es else None)]
            if out["bg_bank_name"] != want_name:
                probs.append(("end-to-end: bank of an IBAN does not follow the effective lookup components",
                              {"components": comps, "key": key, "bank_name": want_name}, out["bg_bank_name"]))
            for which in ("bg_bic", "bg_bban_bic"):
                got = out[which]
                good = (got == ["ok", "None"]) if not cands else (got[0] == "ok" and lookup.selection_ok(cands, got[1]))
                if not good:
                    probs.append(("end-to-end: BIC of an IBAN does not follow the effective lookup components",
                                  {"components": comps, "key": key, "candidates": cands}, {which: got}))
        return probs
    finally:
        shutil.rmtree(tmp, ignore_errors=True)


def e2e_configs():
    bank_plain = [{"country_code": "DE", "bank_code": "99999999", "bic": "ZZZZDEZZXXX", "name": "z",
                   "short_name": "z", "primary": False}]
    bank_v2 = {"expand_from": "bank_codes", "expand_into": "bank_code", "entries": [
        {"country_code": "DE", "bic": "YYYYDEYY", "name": "y", "short_name": "y",
         "bank_codes": ["99999999", "99999998"]}]}
    def bg(code, bic, name):
        return {"country_code": "BG", "bank_code": code, "bic": bic, "name": name, "short_name": name,
                "primary": True}
    bg_banks = [bg("ZZZZ10", "ZZZZBGZZ", "gap"), bg("ZZZZ123410", "YYYYBGYY", "run"), bg("ZZZZ", "XXXXBGXX", "plain"),
                bg("1234ZZZZ", "WWWWBGWW", "reversed"), bg("ZZZZ1234", "VVVVBGVV", "forward")]
    de_dup = [{"country_code": "DE", "bank_code": "37040044", "bic": "COBADEFFXXX", "name": "custom entry without method",
               "short_name": "custom", "primary": True}]
    return [
        ("same German code without a method in a file sorting FIRST", {}, {"custom_de.json": de_dup}),
        ("same German code without a method in a file sorting LAST", {}, {"zz_de.json": de_dup}),
        ("lookup components with a gap between them", {"zz_last.json": {"BG": {"bic_lookup_components": [
            "bank_code", "account_type"]}}}, {"zz_bank.json": bg_banks}),
        ("lookup components in reverse order", {"zz_last.json": {"BG": {"bic_lookup_components": [
            "branch_code", "bank_code"]}}}, {"zz_bank.json": bg_banks}),
        ("lookup components default, same banks", {}, {"zz_bank.json": bg_banks}),
        ("bundled only", {}, {}),
        ("add country last", {"zz_last.json": OVERLAYS["O_add"]}, {}),
        ("add country first", {"00_first.json": OVERLAYS["O_add"]}, {}),
        ("scalar last", {"zz_last.json": OVERLAYS["O_scalar"]}, {}),
        ("scalar first (bundled wins)", {"00_first.json": OVERLAYS["O_scalar"]}, {}),
        ("position between", {"h_between.json": OVERLAYS["O_position"]}, {}),
        ("position upper-case name", {"Generated.json": OVERLAYS["O_position"]}, {}),
        ("two overlays", {"zz_last.json": OVERLAYS["O_add"], "zy.json": OVERLAYS["O_scalar"]}, {}),
        ("bank list last", {}, {"zz_bank.json": bank_plain}),
        ("bank v2 first + list last", {"zz_last.json": OVERLAYS["O_add"]},
         {"00_bank.v2.json": bank_v2, "zz_bank.json": bank_plain}),
    ]


def e2e_shard(args):
    _, i, tier = args
    part = par.Part()
    cfg = e2e_configs()[i]
    part.count(("e2e", cfg[0]))
    for sig, exp, obs in e2e_problems(cfg):
        part.violation(sig, {"kind": "c18e2e", "config": i, "name": cfg[0]}, exp, obs)
    part.stat("end_to_end_configurations")
    if i == 1:
        part.sample({"end_to_end": cfg[0], "iban_files_added": list(cfg[1])})
    return part.done()


def effective_data_problems():
    """The data the library works with (through a real import of the bundled files) must be the
    name-ordered merge / concatenation computed by R-REG, entry by entry."""
    out = []
    got = lib.registry.get("bank")
    exp = reg.bank_list()
    if got != exp:
        i = next((i for i, (a, b) in enumerate(zip(got, exp)) if a != b), min(len(got), len(exp)))
        out.append(("library-bank-list-differs-from-the-files", exp[i] if i < len(exp) else None,
                    got[i] if i < len(got) else None))
    for name, index in (("bank_code", lookup.by_key()), ("bic", lookup.by_bic()), ("country", lookup.by_country())):
        cur = lib.registry.get(name)
        if cur != index:
            bad = next((k for k in list(index) + list(cur) if cur.get(k) != index.get(k)), None)
            out.append((f"library-index-{name}-differs-from-the-files", index.get(bad), cur.get(bad)))
    table = {k: {kk: vv for kk, vv in v.items() if kk != "regex"} for k, v in lib.registry.get("iban").items()}
    if table != reg.iban_table():
        bad = next(k for k in list(table) + list(reg.iban_table()) if table.get(k) != reg.iban_table().get(k))
        out.append(("library-country-table-differs-from-the-files", reg.iban_table().get(bad), table.get(bad)))
    return out




def effective_shard(args):
    """Bundled files through the real import: the library's tables and indexes equal the reference
    composition right after import and still after the API prelude."""
    from ..engine import activity
    part = par.Part()
    for phase in ("after-import", "after-API-activity"):
        if phase == "after-API-activity":
            part.stat("prelude_calls", activity.exercise_api(report.SEED))
        part["evals"] += 5
        part.seen.update(hash((phase, i)) for i in range(5))
        for sig, exp, obs in effective_data_problems():
            part.violation(f"{sig} [{phase}]", {"kind": "c18effective", "phase": phase}, exp, obs)
    part.stat("effective_data_comparisons", 2)
    return part.done()


def runtime_table_problems():
    """Run-time update of the country table through the library's own ``registry.save``: what is
    saved REPLACES what was there, and validation, decomposition and generation - also through
    objects (and copies / pickles of objects) created and used BEFORE the update - follow the
    table in force at the time of the call."""
    import pickle
    probs = []
    cur = lib.registry.get("iban")
    gb_text, no_text = "GB29NWBK60161331926819", "NO9386011117947"
    pre = {}
    for name, text in (("GB", gb_text), ("NO", no_text)):
        kp, o = lib.outcome(lib.IBAN, text)
        if kp != "ok":
            return [("a bundled example IBAN is refused before any update", text, (kp, o))]
        _ = (o.bank_code, o.branch_code, o.account_code, o.bban.spec, o.spec, o.is_valid)   # used before
        kp, views0 = lib.outcome(lambda: {"object": o, "deepcopy": copy.deepcopy(o), "pickle": pickle.loads(pickle.dumps(o)),
                                          "copy": copy.copy(o), "bban-deepcopy": copy.deepcopy(o.bban)})
        if kp != "ok":
            return [("an object cannot be copied before any update", text, (kp, views0))]
        pre[name] = views0

    def table(change):
        t = {k: dict(v) for k, v in cur.items()}   # entries copied one level: 'regex' objects kept
        change(t)
        return t

    def gb_without_branch(t):
        t["GB"]["positions"] = {k: v for k, v in t["GB"]["positions"].items() if k != "branch_code"}

    def gb_moved(t):
        t["GB"]["positions"] = dict(t["GB"]["positions"], account_code=[12, 18], branch_code=[4, 12])

    def no_removed_qq_added(t):
        t["QQ"] = dict(t.pop("NO"))
    for label, change in (("GB without a branch field", gb_without_branch), ("GB fields moved", gb_moved),
                          ("NO renamed to QQ", no_removed_qq_added)):
        new = table(change)
        with sandbox.iban_table_saved(new):
            got = lib.registry.get("iban")
            if strip_regex(got) != strip_regex(new):
                bad = sorted(k for k in set(got) | set(new) if strip_regex({k: got.get(k, {})}) != strip_regex({k: new.get(k, {})}))[:3]
                probs.append((f"registry.save does not replace the table [{label}]",
                              {k: strip_regex({k: new.get(k, {})})[k] for k in bad},
                              {k: strip_regex({k: got.get(k, {})})[k] for k in bad}))
                continue
            if "GB" in label:
                pos = new["GB"]["positions"]
                body = gb_text[4:]
                want = {c: (body[pos[c][0]:pos[c][1]] if c in pos else "") for c in ("bank_code", "branch_code", "account_code")}
                views = dict(pre["GB"])
                for vname, f in (("fresh", lambda: lib.IBAN(gb_text)), ("fresh-bban", lambda: lib.BBAN("GB", body))):
                    kq, oq = lib.outcome(f)
                    if kq == "ok":
                        views[vname] = oq
                    else:
                        probs.append((f"a text that fits the saved table is refused [{label}; {vname}]", "object", (kq, oq)))
                for vname, o in views.items():
                    k, v = lib.outcome(lambda: {c: getattr(o, c) for c in want})
                    if (k, v) != ("ok", want):
                        probs.append((f"components do not follow the saved table [{label}; {vname} object]", want, (k, v)))
                k, v = lib.outcome(lambda: str(lib.IBAN.generate("GB", "NWBK", "31926819" if "moved" not in label else "926819",
                                                                 "601613" if "without" not in label else "")))
                if "without" in label and k == "ok":
                    ko_, o = lib.outcome(lib.IBAN, v)
                    if ko_ != "ok" or o.branch_code != "" or o.bank_code != "NWBK":
                        probs.append((f"generate does not follow the saved table [{label}]", "no branch field", v))
            else:
                for text, cc, ok in ((no_text, "NO", False), ("QQ" + ri.check_digits("QQ", no_text[4:]) + no_text[4:], "QQ", True)):
                    for how, f in (("IBAN(text)", lambda t=text: lib.IBAN(t)),
                                   ("from_bban", lambda t=text, cc=cc: lib.IBAN.from_bban(cc, t[4:])),
                                   ("BBAN(...).bank_code", lambda t=text, cc=cc: lib.BBAN(cc, t[4:]).bank_code)):
                        k, v = lib.outcome(f)
                        if how.startswith("BBAN") and not ok:
                            continue
                        if (k == "ok") != ok:
                            probs.append((f"country set does not follow the saved table [{label}; {how}]",
                                          "accept" if ok else "reject", (cc, k, str(v))))
                k, v = lib.outcome(lambda: pre["NO"]["object"].is_valid)
                if (k, v) != ("ok", False):
                    probs.append((f"object created before the update not judged by the table in force [{label}]",
                                  False, (k, v)))
        if strip_regex(lib.registry.get("iban")) != strip_regex(cur):
            probs.append(("table not restorable after registry.save", "bundled table", label))
    return probs


def runtime_shard(args):
    part = par.Part()
    before = sandbox.deep_snapshot()
    part["evals"] += 40
    for i in range(40):
        part.seen.add(hash(("runtime", i)))
    for sig, exp, obs in runtime_table_problems():
        part.violation(sig, {"kind": "c18runtime"}, exp, obs)
    sandbox.assert_restored(before)
    part.stat("runtime_table_updates", 3)
    part.sample({"runtime_table_updates": ["GB without a branch field", "GB fields moved", "NO renamed to QQ"]})
    return part.done()


def shard(args):
    if args[0] == "runtime":
        return runtime_shard(args)
    if args[0] == "effective":
        return effective_shard(args)
    before = None
    if args[0] in ("ibanload", "bankload") and args[1] in (0, ("generated.json",)):
        before = sandbox.deep_snapshot()
    out = {"merge": merge_shard, "merge3": merge3_shard, "ibanload": iban_loader_shard, "bankload": bank_loader_shard,
           "e2e": e2e_shard}[args[0]](args)
    if before is not None:
        sandbox.assert_restored(before)
    return out


def replay(case: dict) -> dict:
    k = case["kind"]
    if k == "c18effective":
        probs = effective_data_problems() if case["phase"] == "after-import" else []
        return {"ok": not probs, "observed": [(p[0], p[2]) for p in probs]}
    if k == "c18runtime":
        probs = runtime_table_problems()
        return {"ok": not probs, "observed": [(p[0], p[2]) for p in probs]}
    if k == "c18merge":
        l, r = copy.deepcopy(case["left"]), copy.deepcopy(case["right"])
        kk, got = lib.outcome(lib.registry.merge_dicts, l, r)
        ok = kk == "ok" and got == reg.ref_merge(case["left"], case["right"]) and l == case["left"] and r == case["right"]
        return {"ok": ok, "observed": got, "expected": reg.ref_merge(case["left"], case["right"])}
    if k == "c18merge3":
        a, b, c = case["docs"]
        got = lib.registry.merge_dicts(lib.registry.merge_dicts(copy.deepcopy(a), copy.deepcopy(b)), copy.deepcopy(c))
        exp = reg.ref_merge(reg.ref_merge(a, b), c)
        return {"ok": got == exp, "observed": got, "expected": exp}
    if k == "c18iban":
        probs = raw_load_problems(case["files"], case["listing"])
    elif k == "c18ibanapi":
        probs = iban_config_problems(case["files"], case["listing"])
    elif k == "c18overlay":
        probs = overlay_effect_problems(case["files"], case["overlay"])
    elif k == "c18bank":
        probs = bank_config_problems(case["files"], case["listing"])
    else:
        probs = e2e_problems(e2e_configs()[case["config"]])
    return {"ok": not probs, "observed": [(p[0], p[2]) for p in probs], "expected": [p[1] for p in probs]}


def main(tier: str) -> int:
    run = report.Run(PID, tier, "exploration", RULE)
    max_nodes = 4 if tier == "thorough" else 3
    ndocs = len(all_docs(max_nodes))
    step = max(1, ndocs // 48)
    shards = [("merge", i, min(ndocs, i + step), max_nodes) for i in range(0, ndocs, step)]
    shards += [("merge", i, min(ndocs, i + step), max_nodes, "real-keys") for i in range(0, ndocs, step)]
    nsmall = len(all_docs(2))
    shards += [("merge3", i, min(nsmall, i + 4)) for i in range(0, nsmall, 4)]
    pool = ["generated.json", "overwrite.json"] + list(OVERLAYS)
    n_overlay_only = 0
    for k in (1, 2, 3):
        for chosen in itertools.combinations(pool, k):
            if tier == "quick" and k == 3 and not any(x.endswith(".json") for x in chosen):
                # three overlay documents and no bundled file: every third combination in the quick tier
                n_overlay_only += 1
                if n_overlay_only % 3:
                    continue
            shards.append(("ibanload", chosen, tier))
    nv2 = len(v2_documents(tier))
    shards += [("bankload", i, min(nv2, i + 12), tier) for i in range(0, nv2, 12)]
    shards += [("e2e", i, tier) for i in range(len(e2e_configs()))]
    shards.append(("effective", tier))
    shards.append(("runtime", tier))
    shards.sort(key=lambda s: {"e2e": 0, "effective": 0, "runtime": 0, "ibanload": 1, "bankload": 2, "merge": 3, "merge3": 3}[s[0]])
    par.run_shards(run, shard, shards)
    run.extra.update({"merge_documents": ndocs, "merge_pairs": ndocs * ndocs, "max_nodes": max_nodes,
                      "overlays": list(OVERLAYS), "overlay_file_names": OVERLAY_NAMES,
                      "v2_documents": nv2, "end_to_end": [c[0] for c in e2e_configs()]})
    run.assumptions += ["reference merge / expansion mc/ref/reg.py; file-name order = Python str order of "
                        "the file names",
                        "aliasing between merge inputs and result is not judged (the statement is about the "
                        "effective data)"]
    return run.finish(replay)
