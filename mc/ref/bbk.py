"""R-BBK: the Bundesbank check-digit methods (DESIGN.md appendix B), written from the published
descriptions.  ``verdict(method, account)`` -> True (accept) / False (reject) / None (abstain).

Account numbers are ten ASCII digits; a[1..10] in the published text is s[0..9] here.
"""
from __future__ import annotations


def _qs(n: int) -> int:
    t = 0
    while n:
        t += n % 10
        n //= 10
    return t


def _wsum(s: str, lo: int, hi: int, ws, qs: bool = False, unit: bool = False) -> int:
    """weights ``ws`` applied cyclically from position ``hi`` leftwards down to ``lo`` (1-based)."""
    total, i = 0, 0
    for p in range(hi, lo - 1, -1):
        prod = int(s[p - 1]) * ws[i % len(ws)]
        if qs:
            prod = _qs(prod)
        if unit:
            prod %= 10
        total += prod
        i += 1
    return total


def _pz(s: str, p: int) -> int:
    return int(s[p - 1])


def _rule00(s, lo, hi, ws, p):
    return (10 - _wsum(s, lo, hi, ws, qs=True) % 10) % 10 == _pz(s, p)


def _rule01(s, lo, hi, ws, p, unit=False):
    return (10 - _wsum(s, lo, hi, ws, unit=unit) % 10) % 10 == _pz(s, p)


def _rule02(s, lo, hi, ws, p):
    r = _wsum(s, lo, hi, ws) % 11
    if r == 1:
        return False
    return (0 if r == 0 else 11 - r) == _pz(s, p)


def _rule06(s, lo, hi, ws, p):
    r = _wsum(s, lo, hi, ws) % 11
    k = 11 - r
    if k >= 10:
        k = 0
    return k == _pz(s, p)


R27 = [2, 3, 4, 5, 6, 7]
R29 = [2, 3, 4, 5, 6, 7, 8, 9]
R210 = [2, 3, 4, 5, 6, 7, 8, 9, 10]


def _m16_like(s, lo, hi, p):
    r = _wsum(s, lo, hi, R27) % 11
    if r == 1 and s[p - 2] == s[p - 1]:
        # "Rest 1": valid regardless of the computed result if the digit before the check digit
        # equals it; otherwise the ordinary 06 rule decides (check digit 0)
        return True
    return _rule06(s, lo, hi, R27, p)


def _m24(s):
    d = list(s[:9])
    if d[0] in "3456":
        d[0] = "0"
    elif d[0] == "9":
        d[0] = d[1] = d[2] = "0"
    body = "".join(d).lstrip("0")
    ws = [1, 2, 3]
    total = 0
    for i, ch in enumerate(body):
        w = ws[i % 3]
        total += (int(ch) * w + w) % 11
    return total % 10 == _pz(s, 10)


def _m61(s):
    ws_l2r = [2, 1, 2, 1, 2, 1, 2]
    total = sum(_qs(int(s[i]) * ws_l2r[i]) for i in range(7))
    if s[8] == "8":
        total += _qs(int(s[8]) * 1) + _qs(int(s[9]) * 2)
    return (10 - total % 10) % 10 == _pz(s, 8)


def _m68(s):
    n = int(s)
    if s[0] != "0":  # ten significant digits
        if s[3] != "9":
            return False
        return _rule00(s, 4, 9, [2, 1], 10)
    if 400_000_000 <= n <= 499_999_999:
        return True
    if _rule00(s, 1, 9, [2, 1], 10):
        return True
    t = s[:2] + "00" + s[4:]
    return _rule00(t, 1, 9, [2, 1], 10)


def _m76(s):
    if s[0] not in "046789":
        return False
    r = _wsum(s, 2, 7, R27) % 11
    if r == 10:
        return None  # published: not usable -> second variant; the library treats it as 0
    return r == _pz(s, 8)


def _m91(s):
    if _rule06(s, 1, 6, R27, 7):
        return True
    if _rule06(s, 1, 6, [7, 6, 5, 4, 3, 2], 7):
        return True
    if _rule06(s, 1, 10, [2, 3, 4, 0, 5, 6, 7, 8, 9, 10], 7):
        return True
    return _rule06(s, 1, 6, [2, 4, 8, 5, 10, 9], 7)


def _m17(s):
    ws = [1, 2, 1, 2, 1, 2]
    total = sum(_qs(int(s[1 + i]) * ws[i]) for i in range(6))
    r = (total - 1) % 11
    k = 0 if r == 0 else 10 - r
    return k == _pz(s, 8)


def _m21(s):
    t = _wsum(s, 1, 9, [2, 1], qs=True)
    while t >= 10:
        t = _qs(t)
    return (10 - t) % 10 == _pz(s, 10)


def _m25(s):
    r = _wsum(s, 2, 9, R29) % 11
    if r == 0:
        return _pz(s, 10) == 0
    if r == 1:
        return _pz(s, 10) == 0 and s[1] in "89"
    return 11 - r == _pz(s, 10)


def _m11(s):
    r = _wsum(s, 1, 9, R210) % 11
    k = 11 - r
    if k == 10:
        k = 9
    elif k == 11:
        k = 0
    return k == _pz(s, 10)


def _m26(s):
    if s.startswith("00"):
        s = s[2:] + "00"
    return _rule06(s, 1, 7, R27, 8)


def _m88(s):
    if s[2] == "9":
        return _rule06(s, 3, 9, [2, 3, 4, 5, 6, 7, 8], 10)
    return _rule06(s, 4, 9, R27, 10)


def _shifted_variant(fn):
    """Methods 13 / 63 / 76: if the first variant fails the published text tries the number
    with the (missing) two-digit sub-account appended; the property sides with the library,
    which does not, so the reference abstains exactly there."""
    def wrapped(s):
        v = fn(s)
        if v is False and s.startswith("00"):
            if fn(s[2:] + "00") in (True, None):
                return None
        return v
    return wrapped


def _m63(s):
    if s[0] != "0":
        return False
    return _rule00(s, 2, 7, [2, 1], 8)


METHODS = {
    "00": lambda s: _rule00(s, 1, 9, [2, 1], 10),
    "01": lambda s: _rule01(s, 1, 9, [3, 7, 1], 10),
    "02": lambda s: _rule02(s, 1, 9, R29, 10),
    "03": lambda s: _rule01(s, 1, 9, [2, 1], 10),
    "04": lambda s: _rule02(s, 1, 9, R27, 10),
    "05": lambda s: _rule01(s, 1, 9, [7, 3, 1], 10),
    "06": lambda s: _rule06(s, 1, 9, R27, 10),
    "07": lambda s: _rule02(s, 1, 9, R210, 10),
    "08": lambda s: True if int(s) < 60_000 else _rule00(s, 1, 9, [2, 1], 10),
    "09": lambda s: True,
    "10": lambda s: _rule06(s, 1, 9, R210, 10),
    "11": _m11,
    "13": _shifted_variant(lambda s: _rule00(s, 2, 7, [2, 1], 8)),
    "14": lambda s: _rule02(s, 4, 9, R27, 10),
    "15": lambda s: _rule06(s, 6, 9, [2, 3, 4, 5], 10),
    "16": lambda s: _m16_like(s, 1, 9, 10),
    "17": _m17,
    "18": lambda s: _rule01(s, 1, 9, [3, 9, 7, 1], 10),
    "19": lambda s: _rule06(s, 1, 9, [2, 3, 4, 5, 6, 7, 8, 9, 1], 10),
    "20": lambda s: _rule06(s, 1, 9, [2, 3, 4, 5, 6, 7, 8, 9, 3], 10),
    "21": _m21,
    "22": lambda s: _rule01(s, 1, 9, [3, 1], 10, unit=True),
    "23": lambda s: _m16_like(s, 1, 6, 7),
    "24": _m24,
    "25": _m25,
    "26": _m26,
    "28": lambda s: _rule06(s, 1, 7, [2, 3, 4, 5, 6, 7, 8], 8),
    "32": lambda s: _rule06(s, 4, 9, R27, 10),
    "33": lambda s: _rule06(s, 5, 9, [2, 3, 4, 5, 6], 10),
    "34": lambda s: _rule06(s, 1, 7, [2, 4, 8, 5, 10, 9, 7], 8),
    "38": lambda s: _rule06(s, 4, 9, [2, 4, 8, 5, 10, 9], 10),
    "60": lambda s: _rule00(s, 3, 9, [2, 1], 10),
    "61": _m61,
    "63": _shifted_variant(_m63),
    "68": _m68,
    "76": _shifted_variant(_m76),
    "88": _m88,
    "91": _m91,
    "99": lambda s: True if 396_000_000 <= int(s) <= 499_999_999 else _rule06(s, 1, 9, R27, 10),
}

# Positions (1-based) each method's verdict can depend on, for full-product enumeration.
# None = all ten.
SMALL_SUPPORT = {
    "15": [6, 7, 8, 9, 10], "33": [5, 6, 7, 8, 9, 10],
}


def verdict(method: str, account: str):
    fn = METHODS.get(method)
    if fn is None:
        return None
    return fn(account)


def landmarks(method: str) -> list[str]:
    """Account numbers at the edges of each method's special rules."""
    common = ["0000000000", "0123456789", "9876543210", "1111111111", "9999999999"]
    extra = {
        "08": ["0000059999", "0000060000", "0000060001", "0000005999", "0000006000",
               "0000006001", "0000010000", "0000059998"],
        "99": ["0395999999", "0396000000", "0396000001", "0400000000", "0499999998",
               "0499999999", "0500000000", "0450000000"],
        "68": ["0399999999", "0400000000", "0499999999", "0500000000", "1009000000",
               "1000000000", "0001234567", "4009123456", "8889654328", "8889654320", "0987654324"],
        "24": ["3000000000", "4111111111", "5222222222", "6333333333", "9001234567",
               "9990000001", "0000000001", "2000000000"],
        "63": ["1000000000", "0000123456", "0012345600"],
        "76": ["1000000000", "2000000000", "4000000000", "0000123456", "0012345600"],
        "88": ["0090000000", "0080000000", "1291234567"],
        "26": ["0012345678", "0100000000", "0000000000"],
        "13": ["0012345600", "0000123456"],
        "61": ["0000000080", "0000000081", "0000000070", "1234567080"],
        "25": ["0800000000", "0900000000", "0100000000"],
    }
    return common + extra.get(method, [])


def feature(method: str, s: str):
    """Which branch of the published rule an account number falls into (used to pick operands that
    exercise every branch, not just every verdict)."""
    n = int(s)
    if method == "08":
        return "below-60000" if n < 60_000 else "checked"
    if method in ("13", "26"):
        return "starts-00" if s.startswith("00") else "plain"
    if method == "63":
        return "first-nonzero" if s[0] != "0" else ("starts-00" if s.startswith("00") else "plain")
    if method == "76":
        return ("type-" + ("ok" if s[0] in "046789" else "refused")) + ("-00" if s.startswith("00") else "")
    if method == "24":
        return "first-3456" if s[0] in "3456" else "first-9" if s[0] == "9" else "plain"
    if method == "61":
        return "ninth-8" if s[8] == "8" else "plain"
    if method == "68":
        if s[0] != "0":
            return "ten-digits-4th-9" if s[3] == "9" else "ten-digits-other"
        return "exempt-range" if 400_000_000 <= n <= 499_999_999 else "plain"
    if method == "88":
        return "third-9" if s[2] == "9" else "third-0" if s[2] == "0" else "third-1-8"
    if method == "99":
        return "exempt-range" if 396_000_000 <= n <= 499_999_999 else "checked"
    if method == "91":
        vs = [_rule06(s, 1, 6, R27, 7), _rule06(s, 1, 6, [7, 6, 5, 4, 3, 2], 7),
              _rule06(s, 1, 10, [2, 3, 4, 0, 5, 6, 7, 8, 9, 10], 7), _rule06(s, 1, 6, [2, 4, 8, 5, 10, 9], 7)]
        return "variant-" + (str(vs.index(True) + 1) if True in vs else "none")
    if method == "16":
        return "last-two-equal" if s[8] == s[9] and s[9] != "0" else "plain"
    if method == "23":
        return "6-7-equal" if s[5] == s[6] and s[6] != "0" else "plain"
    if method == "25":
        return "second-8-9" if s[1] in "89" else "plain"
    return "plain"
