"""R-BIC: the ISO 9362 grammar as explicit per-position ASCII sets."""
from __future__ import annotations

from . import reg
from .iban import DIG, UP, normalise

ALNUM = DIG + UP


def defects(text: str, strict: bool = False) -> set[str]:
    t = normalise(text)
    out = set()
    if len(t) not in (8, 11):
        out.add("length")
    party = UP if strict else ALNUM
    ok = (len(t) in (8, 11)
          and all(ch in party for ch in t[0:4])
          and all(ch in UP for ch in t[4:6])
          and all(ch in ALNUM for ch in t[6:8])
          and all(ch in ALNUM for ch in t[8:11]))
    if not ok:
        out.add("structure")
    if t[4:6] not in reg.iso_countries():
        out.add("country")
    return out


def accept(text: str, strict: bool = False) -> bool:
    return not defects(text, strict)


def formatted(compact: str) -> str:
    parts = [compact[0:4], compact[4:6], compact[6:8]]
    if len(compact) > 8:
        parts.append(compact[8:11])
    return " ".join(parts)
