"""R-GEN: component -> BBAN assembly by the published positions (clean, upper, zero-pad,
combined bank+branch split, over-length precedence, national digits from R-NAT, filler zeros)."""
from __future__ import annotations

from . import nat, reg
from .iban import normalise

SPECIFIC = {"bank_code": "InvalidBankCode", "branch_code": "InvalidBranchCode",
            "account_code": "InvalidAccountCode"}
ANY_ERROR = "any-library-error"


def width(c: reg.Country, comp: str) -> int:
    s = c.span(comp)
    return (s[1] - s[0]) if s else 0


def assemble(country: str, values: dict):
    """-> ('ok', bban) | ('error', allowed) | ('excluded', why)

    ``allowed`` is ANY_ERROR or a set of exception class names of which one must be raised."""
    c = reg.countries().get(country)
    if c is None:
        return ("error", ANY_ERROR)
    if not c.positions:
        return ("error", ANY_ERROR)
    comp = {}
    for k, v in values.items():
        comp[k] = normalise(v).zfill(width(c, k))
    for k in ("bank_code", "branch_code", "account_code"):
        comp.setdefault(k, "".zfill(width(c, k)))
    bw, rw = width(c, "bank_code"), width(c, "branch_code")
    if rw > 0 and len(comp["bank_code"]) == bw + rw:
        if normalise(values.get("branch_code", "")) != "":
            return ("excluded", "combined-width bank code together with a branch code")
        comp["branch_code"] = comp["bank_code"][bw:]
        comp["bank_code"] = comp["bank_code"][:bw]
    too_long = {SPECIFIC[k] for k in SPECIFIC if len(comp[k]) > width(c, k)}
    if too_long:
        return ("error", too_long)
    for k, v in comp.items():
        if k not in SPECIFIC and len(v) > width(c, k):
            return ("error", ANY_ERROR)
    chars = ["0"] * c.bban_length
    for k, v in comp.items():
        s = c.span(k)
        if s:
            chars[s[0]:s[1]] = list(v)
    body = "".join(chars)
    if len(body) != c.bban_length:
        return ("error", ANY_ERROR)
    cspan = nat.check_span(country) if country in nat.COMPUTING else None
    cl = c.classes or []
    for i, ch in enumerate(body):
        if cspan and cspan[0] <= i < cspan[1]:
            continue
        if ch not in reg.CLASS_CHARS[cl[i]]:
            return ("error", ANY_ERROR)
    if cspan:
        body = nat.with_check(country, body)
        if body is None:
            return ("error", ANY_ERROR)
    if not c.matches(body):
        return ("error", ANY_ERROR)
    return ("ok", body)
