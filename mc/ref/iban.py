"""R-IBAN: ISO 13616 acceptance by schoolbook rules over R-REG's table."""
from __future__ import annotations

from . import reg

DIG = "0123456789"
UP = "ABCDEFGHIJKLMNOPQRSTUVWXYZ"


def normalise(text: str) -> str:
    return "".join(ch for ch in text if not ch.isspace()).upper()


def expand(s: str):
    """Letters -> two-digit numbers (A=10 ... Z=35); None if a character is neither."""
    out = []
    for ch in s:
        if ch in DIG:
            out.append(ch)
        elif ch in UP:
            out.append(str(10 + UP.index(ch)))
        else:
            return None
    return "".join(out)


def mod97(digits: str) -> int:
    r = 0
    for ch in digits:
        r = (r * 10 + (ord(ch) - 48)) % 97
    return r


def check_digits(country: str, bban: str):
    e = expand(bban + country + "00")
    if e is None:
        return None
    return f"{98 - mod97(e):02d}"


def residue(country: str, bban: str) -> int:
    return mod97(expand(bban + country + "00"))


def defects(text: str) -> set[str]:
    """Set of defects *present* in the text (permissive reading used by C05).

    country   - the first two normalised characters are not a key of the table
    length    - country known and total length differs from the country's IBAN length
    structure - not of the shape [A-Z]{2}[0-9]{2}[A-Z0-9]* or (country known) BBAN does not
                conform to the country's structure
    checksum  - the mod-97 check does not pass (or cannot be computed), or the check digits are
                not the canonical ones
    """
    t = normalise(text)
    out = set()
    cs = reg.countries()
    c = cs.get(t[:2]) if len(t) >= 2 else None
    if c is None:
        out.add("country")
    shape = (len(t) >= 4 and t[0] in UP and t[1] in UP and t[2] in DIG and t[3] in DIG
             and all(ch in DIG or ch in UP for ch in t[4:]))
    if not shape:
        out.add("structure")
    if c is not None:
        if len(t) != c.iban_length:
            out.add("length")
        if not c.matches(t[4:]):
            out.add("structure")
    e = expand(t[4:] + t[:4]) if len(t) >= 4 else None
    if e is None or e == "" or mod97(e) != 1:
        out.add("checksum")
    elif shape and check_digits(t[:2], t[4:]) != t[2:4]:
        out.add("checksum")
    return out


def accept(text: str) -> bool:
    return not defects(text)


def is_alias(text: str) -> bool:
    """mod 97 == 1 but the digits are one of the non-canonical aliases 00 / 01 / 99."""
    t = normalise(text)
    return len(t) >= 4 and t[2:4] in ("00", "01", "99")


def formatted(compact: str) -> str:
    groups = []
    i = 0
    while i < len(compact):
        groups.append(compact[i:i + 4])
        i += 4
    return " ".join(groups)
