"""R-LOOKUP: bank-code <-> BIC relations over R-REG's bank list, and the national verdict
(R-NAT for the 22 countries, bank -> Bundesbank method -> R-BBK for Germany)."""
from __future__ import annotations

from functools import lru_cache

from . import bbk, nat, reg


def index_by_key(banks) -> dict:
    """(country_code, bank_code) -> entries in list order (entries with an empty key part skipped)."""
    out: dict = {}
    for e in banks:
        cc, bc = e.get("country_code"), e.get("bank_code")
        if cc and bc:
            out.setdefault((cc, bc), []).append(e)
    return out


def index_by_bic(banks) -> dict:
    out: dict = {}
    for e in banks:
        if e.get("bic"):
            out.setdefault(e["bic"], []).append(e)
    return out


def index_by_country(banks) -> dict:
    out: dict = {}
    for e in banks:
        if e.get("country_code"):
            out.setdefault(e["country_code"], []).append(e)
    return out


@lru_cache(maxsize=None)
def by_key() -> dict:
    return index_by_key(reg.bank_list())


@lru_cache(maxsize=None)
def by_bic() -> dict:
    return index_by_bic(reg.bank_list())


@lru_cache(maxsize=None)
def by_country() -> dict:
    return index_by_country(reg.bank_list())


def candidates_in(index: dict, country: str, bank_code: str):
    es = index.get((country, bank_code))
    if es is None:
        return None
    prim = [e["bic"] for e in es if e.get("primary") and e["bic"]]
    rest = [e["bic"] for e in es if not e.get("primary") and e["bic"]]
    return prim + rest


def candidates(country: str, bank_code: str):
    """Non-empty BICs of the key, primary entries first, registry order otherwise; None = unlisted."""
    return candidates_in(by_key(), country, bank_code)


def selection_ok(cands: list[str], chosen: str) -> bool:
    """The selection *predicate* of C12 (which 8-character BIC is chosen is left open)."""
    if chosen not in cands:
        return False
    if len(cands) == 1:
        return True
    if any(len(c) == 8 for c in cands):
        return len(chosen) == 8
    if any(c[8:11] == "XXX" for c in cands):
        return chosen[8:11] == "XXX"
    return chosen == cands[0]


def bank_entry(country: str, bban: str):
    c = reg.countries().get(country)
    if c is None:
        return None
    es = by_key().get((country, c.lookup_key(bban)))
    return es[0] if es else None


AMBIGUOUS = "ambiguous"


def german_method(bban: str):
    """The Bundesbank method the registry lists for the bank code of ``bban``: None if the bank is
    unlisted or no entry of the key carries a method; AMBIGUOUS if the entries disagree."""
    c = reg.countries().get("DE")
    es = by_key().get(("DE", c.lookup_key(bban))) if c else None
    if not es:
        return None
    methods = {e.get("checksum_algo") for e in es} - {None, ""}
    if not methods:
        return None
    if len(methods) > 1:
        return AMBIGUOUS
    return next(iter(methods))


def national_verdict(country: str, bban: str):
    """True / False / None (no rule known to the reference, or the reference abstains).
    ``bban`` must conform to the country's structure."""
    if country == "DE":
        m = german_method(bban)
        if m is None or m not in bbk.METHODS:
            return True if m is None else None  # AMBIGUOUS and unknown methods: abstain
        c = reg.countries()["DE"]
        return bbk.verdict(m, c.component(bban, "account_code"))
    return nat.accept(country, bban)
