"""R-NAT: the 22 national check-digit rules, written from the published descriptions
(DESIGN.md appendix A).  Nothing here imports schwifty.

``accept(country, bban)`` -> True / False, or None when the country has no rule here.
``compute(country, bban)`` -> the check field value that makes ``bban`` (with any content in
the check field) valid, or None if no such value exists / the country has no dedicated field.
Field positions come from R-REG (the country's published positions).
"""
from __future__ import annotations

from . import reg
from .iban import DIG, UP

ISO_9710 = {"BA", "PT", "RS", "ME", "MK", "SI", "TL"}
ISO_9710_VARIANT = {"MR", "TN"}
COUNTRIES = (ISO_9710 | ISO_9710_VARIANT
             | {"BE", "ES", "FR", "MC", "IT", "SM", "FI", "NO", "PL", "EE", "CZ", "SK", "IS"})
# countries whose digits live in a dedicated national_checksum_digits field and are computed
COMPUTING = COUNTRIES - {"CZ", "SK", "IS"}


def _num(s: str) -> int:
    out = []
    for ch in s:
        if ch in DIG:
            out.append(ch)
        else:
            out.append(str(10 + UP.index(ch)))
    return int("".join(out)) if out else 0


_RIB = {}
for _i, _ch in enumerate("ABCDEFGHI"):
    _RIB[_ch] = _i + 1
for _i, _ch in enumerate("JKLMNOPQR"):
    _RIB[_ch] = _i + 1
for _i, _ch in enumerate("STUVWXYZ"):
    _RIB[_ch] = _i + 2
for _ch in DIG:
    _RIB[_ch] = int(_ch)


def _rib(s: str) -> int:
    return int("".join(str(_RIB[ch]) for ch in s)) if s else 0


_CIN_ODD = [1, 0, 5, 7, 9, 13, 15, 17, 19, 21, 2, 4, 18, 20, 11, 3, 6, 8, 12, 14, 16, 10, 22,
            25, 24, 23]


def _val(ch: str) -> int:
    return DIG.index(ch) if ch in DIG else UP.index(ch)


# Published field layout per country (independent of the library's position table):
# name -> (start, end) in the BBAN.
LAYOUT = {
    "BE": {"body": (0, 10), "check": (10, 12)},
    "ES": {"bankbranch": (0, 8), "check": (8, 10), "account": (10, 20)},
    "FR": {"bank": (0, 5), "branch": (5, 10), "account": (10, 21), "check": (21, 23)},
    "MC": {"bank": (0, 5), "branch": (5, 10), "account": (10, 21), "check": (21, 23)},
    "IT": {"check": (0, 1), "body": (1, 23)},
    "SM": {"check": (0, 1), "body": (1, 23)},
    "FI": {"body": (0, 13), "check": (13, 14)},
    "NO": {"bank": (0, 4), "account": (4, 10), "check": (10, 11)},
    "PL": {"body": (0, 7), "check": (7, 8)},
    "EE": {"body": (2, 15), "check": (15, 16)},
    "CZ": {"branch": (4, 10), "account": (10, 20)},
    "SK": {"branch": (4, 10), "account": (10, 20)},
    "IS": {"holder": (12, 22), "check": (20, 21)},
}


def _cut(country: str, bban: str, name: str) -> str:
    s = LAYOUT[country][name]
    return bban[s[0]:s[1]]


def expected_field(country: str, bban: str):
    """Value the check field must have; None = 'no value is valid' (or no dedicated field)."""
    if country == "BE":
        r = int(_cut("BE", bban, "body")) % 97
        return f"{r if r else 97:02d}"
    if country in ISO_9710:
        return f"{98 - (_num(bban[:-2]) * 100) % 97:02d}"
    if country in ISO_9710_VARIANT:
        return f"{97 - (_num(bban[:-2]) * 100) % 97:02d}"
    if country == "ES":
        def digit(s, ws):
            k = 11 - sum(int(d) * w for d, w in zip(s, ws)) % 11
            return {11: 0, 10: 1}.get(k, k)
        d1 = digit(_cut("ES", bban, "bankbranch"), [4, 8, 5, 10, 9, 7, 3, 6])
        d2 = digit(_cut("ES", bban, "account"), [1, 2, 4, 8, 5, 10, 9, 7, 3, 6])
        return f"{d1}{d2}"
    if country in ("FR", "MC"):
        bank, branch, account = (_cut(country, bban, n) for n in ("bank", "branch", "account"))
        return f"{97 - (89 * _rib(bank) + 15 * _rib(branch) + 3 * _rib(account)) % 97:02d}"
    if country in ("IT", "SM"):
        s = 0
        for i, ch in enumerate(_cut(country, bban, "body")):
            s += _CIN_ODD[_val(ch)] if i % 2 == 0 else _val(ch)
        return UP[s % 26]
    if country == "FI":
        total = 0
        for i, ch in enumerate(reversed(_cut("FI", bban, "body"))):
            p = int(ch) * (2 if i % 2 == 0 else 1)
            total += p // 10 + p % 10
        return str((10 - total % 10) % 10)
    if country == "NO":
        bank, account = _cut("NO", bban, "bank"), _cut("NO", bban, "account")
        if account[:2] == "00":
            total = sum(int(d) * w for d, w in zip(account[2:], [5, 4, 3, 2]))
        else:
            total = sum(int(d) * w for d, w in zip(bank + account, [5, 4, 3, 2, 7, 6, 5, 4, 3, 2]))
        k = 11 - total % 11
        if k == 11:
            k = 0
        return None if k == 10 else str(k)
    if country == "PL":
        total = sum(int(d) * w for d, w in zip(_cut("PL", bban, "body"), [3, 9, 7, 1, 3, 9, 7]))
        return str((10 - total % 10) % 10)
    if country == "EE":
        ws = [7, 3, 1]
        total = sum(int(d) * ws[i % 3] for i, d in enumerate(reversed(_cut("EE", bban, "body"))))
        return str((10 - total % 10) % 10)
    return None


def check_span(country: str):
    """(start, end) of the characters whose value the rule determines; None for CZ/SK."""
    if country in ISO_9710 | ISO_9710_VARIANT:
        n = reg.countries()[country].bban_length
        return (n - 2, n)
    return LAYOUT[country].get("check")


def accept(country: str, bban: str):
    if country not in COUNTRIES or country not in reg.countries():
        return None
    if country in ("CZ", "SK"):
        branch, account = _cut(country, bban, "branch"), _cut(country, bban, "account")
        s1 = sum(int(d) * w for d, w in zip(branch, [10, 5, 8, 4, 2, 1]))
        s2 = sum(int(d) * w for d, w in zip(account, [6, 3, 7, 9, 10, 5, 8, 4, 2, 1]))
        return s1 % 11 == 0 and s2 % 11 == 0
    if country == "IS":
        h = _cut("IS", bban, "holder")
        r = sum(int(d) * w for d, w in zip(h[:8], [3, 2, 7, 6, 5, 4, 3, 2])) % 11
        digit = 0 if r == 0 else 11 - r
        if digit == 10:
            return False
        return str(digit) == h[8]
    exp = expected_field(country, bban)
    if exp is None:
        return False
    s = check_span(country)
    return exp == bban[s[0]:s[1]]


def with_check(country: str, bban: str):
    """``bban`` with its check field replaced by the value that makes it valid (None if none)."""
    if country in ("CZ", "SK"):
        # the last digit of the prefix (weight 1) and of the account number (weight 1) are free
        branch, account = _cut(country, bban, "branch"), _cut(country, bban, "account")
        s1 = sum(int(d) * w for d, w in zip(branch[:5], [10, 5, 8, 4, 2]))
        s2 = sum(int(d) * w for d, w in zip(account[:9], [6, 3, 7, 9, 10, 5, 8, 4, 2]))
        d1, d2 = (-s1) % 11, (-s2) % 11
        if d1 == 10 or d2 == 10:
            return None
        return bban[:9] + str(d1) + bban[10:19] + str(d2)
    if country == "IS":
        h = _cut("IS", bban, "holder")
        r = sum(int(d) * w for d, w in zip(h[:8], [3, 2, 7, 6, 5, 4, 3, 2])) % 11
        digit = 0 if r == 0 else 11 - r
        if digit == 10:
            return None
        return bban[:20] + str(digit) + bban[21:]
    exp = expected_field(country, bban)
    if exp is None:
        return None
    s = check_span(country)
    return bban[:s[0]] + exp + bban[s[1]:]
