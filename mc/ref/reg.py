"""R-REG: independent reader of the bundled registries (imports nothing from schwifty).

Reads ``<repo>/schwifty/iban_registry/*.json`` and ``bank_registry/*.json`` from the working
tree: files in name order; dictionaries combined by a recursive right-biased merge; lists
concatenated; ``*.v2.json`` expanded.
"""
from __future__ import annotations

import copy
import json
import os
import re
from functools import lru_cache
from pathlib import Path

REPO = Path(os.environ.get("VERIF_REPO", "/repo")).resolve()
PKG = REPO / "schwifty"

COMPONENTS = ["account_id", "account_type", "account_code", "account_holder_id",
              "currency_code", "bank_code", "branch_code", "national_checksum_digits"]

CLASS_CHARS = {
    "n": "0123456789",
    "a": "ABCDEFGHIJKLMNOPQRSTUVWXYZ",
    # ISO 13616 'c' is upper and lower case alphanumerics; after upper-casing only these remain
    "c": "0123456789ABCDEFGHIJKLMNOPQRSTUVWXYZ",
    "e": " ",
}


def ref_merge(left, right):
    """Deep, later-wins merge: dict & dict -> recurse, otherwise the later value replaces."""
    if isinstance(left, dict) and isinstance(right, dict):
        out = {}
        for k in left:
            out[k] = ref_merge(left[k], right[k]) if k in right else copy.deepcopy(left[k])
        for k in right:
            if k not in left:
                out[k] = copy.deepcopy(right[k])
        return out
    return copy.deepcopy(right)


def ref_expand_v2(doc: dict) -> list[dict]:
    out = []
    src, dst = doc["expand_from"], doc["expand_into"]
    for entry in doc["entries"]:
        rest = {k: v for k, v in entry.items() if k != src}
        rest.setdefault("primary", False)
        for value in entry[src]:
            e = dict(rest)
            e[dst] = value
            out.append(e)
    return out


def ref_load_dir(directory: Path):
    data = None
    for p in sorted(directory.glob("*.json"), key=lambda p: p.name):
        chunk = json.loads(p.read_text(encoding="utf-8"))
        if p.stem.endswith("v2"):
            chunk = ref_expand_v2(chunk)
        if data is None:
            data = chunk
        elif isinstance(data, list):
            data = data + list(chunk)
        else:
            data = ref_merge(data, chunk)
    return data


@lru_cache(maxsize=None)
def iban_table() -> dict:
    return ref_load_dir(PKG / "iban_registry")


@lru_cache(maxsize=None)
def bank_list() -> list:
    return ref_load_dir(PKG / "bank_registry")


_SPEC_TOKEN = re.compile(r"(\d+)(!)?([nace])")


def parse_structure(spec: str):
    """'4!n6!c' -> [(4, True, 'n'), (6, True, 'c')]; None if the string is not of that grammar."""
    pos, out = 0, []
    for m in _SPEC_TOKEN.finditer(spec):
        if m.start() != pos:
            return None
        out.append((int(m.group(1)), bool(m.group(2)), m.group(3)))
        pos = m.end()
    if pos != len(spec) or not out:
        return None
    return out


def structure_matches(tokens, bban: str) -> bool:
    """Does ``bban`` (already normalised) conform to the structure (fixed and 'up to' counts)?"""
    def rec(ti: int, pos: int) -> bool:
        if ti == len(tokens):
            return pos == len(bban)
        n, fixed, cls = tokens[ti]
        chars = CLASS_CHARS[cls]
        lo = n if fixed else 1
        k = 0
        while k < n and pos + k < len(bban) and bban[pos + k] in chars:
            k += 1
        for take in range(k, lo - 1, -1):
            if rec(ti + 1, pos + take):
                return True
        return False

    return rec(0, 0)


def position_classes(tokens):
    """Per-position class letters for an all-fixed structure, else None."""
    if any(not fixed for _, fixed, _ in tokens):
        return None
    out = []
    for n, _, cls in tokens:
        out += [cls] * n
    return out


class Country:
    def __init__(self, code: str, spec: dict):
        self.code = code
        self.spec = spec
        self.bban_spec = spec.get("bban_spec", "")
        self.tokens = parse_structure(self.bban_spec)
        self.classes = position_classes(self.tokens) if self.tokens else None
        self.bban_length = spec.get("bban_length")
        self.iban_length = spec.get("iban_length")
        self.positions = {k: tuple(v) for k, v in (spec.get("positions") or {}).items()}

    def matches(self, bban: str) -> bool:
        return self.tokens is not None and structure_matches(self.tokens, bban)

    def span(self, comp: str):
        return self.positions.get(comp)

    def component(self, bban: str, comp: str) -> str:
        s = self.positions.get(comp)
        return bban[s[0]:s[1]] if s else ""

    @property
    def lookup_components(self):
        return self.spec.get("bic_lookup_components", ["bank_code"])

    def lookup_key(self, bban: str) -> str:
        return "".join(self.component(bban, c) for c in self.lookup_components)

    def covered_positions(self) -> set[int]:
        out = set()
        for s in self.positions.values():
            out |= set(range(s[0], s[1]))
        return out


@lru_cache(maxsize=None)
def countries() -> dict[str, Country]:
    return {k: Country(k, v) for k, v in iban_table().items()}


@lru_cache(maxsize=None)
def iso_countries() -> frozenset[str]:
    """alpha-2 codes straight from pycountry's data file (pycountry itself is not imported)."""
    import importlib.util
    spec = importlib.util.find_spec("pycountry")
    base = Path(list(spec.submodule_search_locations)[0])
    data = json.loads((base / "databases" / "iso3166-1.json").read_text(encoding="utf-8"))
    return frozenset(e["alpha_2"] for e in data["3166-1"])
