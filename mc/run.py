"""Entry point:  python -m mc.run <ID> quick|thorough   |   python -m mc.run replay <file>"""
from __future__ import annotations

import importlib
import json
import os
import sys
import traceback


def main(argv) -> int:
    if len(argv) < 3:
        print("usage: check <ID> quick|thorough | check replay <file>")
        return 2
    if argv[1] == "replay":
        data = json.loads(open(argv[2]).read())
        mod = importlib.import_module(f"mc.props.{data['property'].lower()}")
        if data.get("needs_history") and data.get("shard") is not None:
            from mc.engine.par import in_child
            shard = data["shard"]
            shard = tuple(tuple(x) if isinstance(x, list) else x for x in shard) if isinstance(shard, list) else shard
            part = in_child(getattr(mod, data["shard_fn"]), shard)
            hit = [v for v in part.get("violations", []) if v["signature"] == data["signature"]]
            res = {"ok": not hit, "history_dependent": True, "shard": data["shard"],
                   "observed": hit[0]["observed"] if hit else None,
                   "case_found_again": hit[0]["case"] if hit else None}
        else:
            res = mod.replay(data["case"])
        print(json.dumps({"property": data["property"], "case": data["case"], **res},
                         indent=1, ensure_ascii=True, default=repr))
        if res.get("ok"):
            print("replay: the case no longer violates the property")
            return 0
        print(f"VIOLATION property={data['property']} replay={argv[2]}")
        return 1
    pid, tier = argv[1].upper(), argv[2]
    if tier not in ("quick", "thorough"):
        print("tier must be quick or thorough")
        return 2
    os.environ.setdefault("VERIF_TIER", tier)
    try:
        mod = importlib.import_module(f"mc.props.{pid.lower()}")
        return mod.main(tier)
    except Exception:  # noqa: BLE001
        traceback.print_exc()
        print(f"HARNESS-ERROR property={pid} the harness itself failed (see traceback)")
        return 2


if __name__ == "__main__":
    sys.exit(main(sys.argv))
