#!/bin/sh
# Nothing to build: the machinery is pure Python run by /venv/bin/python against /repo.
# Sanity: interpreter, library import from the working tree, reference loaders.
cd "$(dirname "$0")" || exit 1
mkdir -p evidence replays
PYTHONHASHSEED=0 /venv/bin/python -c "
import mc.lib, mc.ref.reg as r
print('schwifty from', mc.lib.schwifty.__file__, '| countries', len(r.countries()), '| banks', len(r.bank_list()))
"
