#!/usr/bin/env python3
"""Prints the markdown table of measured numbers per check and tier from evidence/<tier>/<ID>.json
(for DESIGN.md section 4b)."""
import json
from pathlib import Path

EV = Path(__file__).resolve().parents[1] / "evidence"


def fmt(n):
    return f"{n / 1e6:.1f} M" if n >= 1e6 else f"{n / 1e3:.0f} k" if n >= 1e4 else str(n)


rows = []
for i in range(1, 19):
    pid = f"C{i:02d}"
    cells = [pid]
    for tier in ("quick", "thorough"):
        p = EV / tier / f"{pid}.json"
        if not p.exists():
            cells += ["-", "-", "-"]
            continue
        e = json.loads(p.read_text())
        c = e["coverage"]
        extra = ""
        if pid == "C14":
            extra = f" ({fmt(c.get('transitions', 0))} steps, {c.get('harnesses', '?')} harnesses)"
        if pid == "C15":
            extra = f" ({c.get('states', '?')} states, {c.get('transitions', '?')} transitions, {c.get('merge_free_sequences', '?')} sequences)"
        cells += [fmt(c["evaluations"]) + extra, fmt(c["distinct_nontrivial"]), f"{e['wall_s']:.0f} s"]
    rows.append("| " + " | ".join(cells) + " |")
print("| id | quick: executions | distinct non-trivial | wall | thorough: executions | distinct non-trivial | wall |")
print("|---|---|---|---|---|---|---|")
print("\n".join(rows))
