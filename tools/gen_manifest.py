#!/usr/bin/env python3
"""Regenerates /verif/MANIFEST.json from the table below (kept in one place so that the
manifest stays valid and in step with the checks that exist)."""
import json
from pathlib import Path

VERIF = Path(__file__).resolve().parents[1]

# id -> (category, technique, level text, level note, design ref)
CHECKS = {}


def add(pid, category, technique, text, note, ref):
    CHECKS[pid] = (category, technique, text, note, ref)


EXPL = "exploration"
add("C01", EXPL,
    "bounded exhaustive enumeration of input deviations (every position x wide alphabet, every "
    "length, every prefix, every check pair) executed on the real code, judged by a reference model",
    "Every text within one edit (thorough: two substitutions over a 12-character cross-section) of "
    "structure-conforming base IBANs of all countries of the tree's table is executed through "
    "IBAN() and compared with an independent ISO 13616 reference; a coverage statement over that "
    "deviation space, not a proof for all strings. Also: white-space paddings to every raw length up to "
    "90, dictionary tokens over every offset, decoration around the text (31 x 31 character pairs), every "
    "value of every small minor field (all 17 576 currency triples of MU / SC), the same core after a "
    "4 500-call API prelude, under python -O and under python -W error.",
    "Trusts the reference model mc/ref/iban.py + mc/ref/reg.py (reads the tree's registry JSON "
    "itself). Texts further than the bound from every base are not explored.",
    "DESIGN.md section 4 C01")

TECH_INPUT = ("bounded exhaustive enumeration of the stated input-deviation space, every case executed "
              "on the real code and judged by an independent reference model (stateless explicit "
              "enumeration, no sampling); each shard in its own fork of the pristine process, plus "
              "deliberate call sequences (same BBAN text under partner countries, API-activity prelude, "
              "refused calls) and, where stated, a python -O interpreter")
add("C02", EXPL, TECH_INPUT,
    "For every country a residue-complete BBAN family (all 97 values of the mod-97 residue) x all 100 "
    "check-digit pairs is executed through IBAN.from_bban and IBAN(); the verdict can only depend on "
    "residue and pair, so the 97x100 grid per country is the complete abstract space. The same question "
    "is asked through is_valid / validate() of unvalidated objects, non-validating assembly and differently "
    "spelled BBAN strings; special BBANs (dictionary tokens, zero / nine runs, small fields); assembly after "
    "a run-time update of the country table.",
    "Trusts the reference mod-97 arithmetic (digit-string long division) in mc/ref/iban.py.",
    "DESIGN.md section 4 C02")
add("C03", EXPL, TECH_INPUT,
    "Every position >= 2 x every ordered same-kind character pair and every adjacent same-kind "
    "transposition on reference-valid IBANs of every country under two (thorough: five) right-context "
    "fillers; each mutated text must be rejected by IBAN() - also with national validation, given as an "
    "IBAN object, with positional flags, and (asked is_valid) as a copy / pickle of the unvalidated object; "
    "plus typos inside and next to dictionary tokens, long zero / nine runs and every small field.",
    "One error per text; valid side built with reference check digits; bases must be accepted first.",
    "DESIGN.md section 4 C03")
add("C04", EXPL, TECH_INPUT,
    "Every text within one edit over the wide alphabet of 8-/11-character base BICs, every length, "
    "all 1296 country-field pairs, decoration around the text, through eight entry points in both "
    "compliance modes (incl. objects built in strict mode and validated in the other), compared "
    "with an explicit per-position ISO 9362 grammar.",
    "Trusts mc/ref/bic.py and pycountry's iso3166-1.json as the ISO 3166 code list.",
    "DESIGN.md section 4 C04")
add("C05", EXPL, TECH_INPUT,
    "The C01 and C04 deviation families through all validating entry points (6 for IBAN, 5 for BIC): "
    "nothing but SchwiftyException escapes, is_valid never raises, entry points agree, and a raised "
    "class names a defect the reference finds present (permissive predicate); an 'extremes' shard (empty, "
    "one-character, 4 300 / 5 000-digit texts) through 20 public ways of handing a text over; python -O and "
    "python -W error interpreters.",
    "Trusts the defect predicates of mc/ref; national defects judged by mc/ref/nat.py / bbk.py, "
    "abstentions not judged.",
    "DESIGN.md section 4 C05")
add("C06", EXPL, TECH_INPUT,
    "For the 22 countries every value of the check field for every body one substitution away from "
    "four bases, wrapped in reference check digits, through three entry points against published "
    "rules re-implemented with hard-coded field layouts; all other countries: flag must not matter; "
    "all countries: accepted with flag => accepted without; other spellings of the request (truthy flag, "
    "keyword / positional forms, from_bban); the same verdicts with the key of every body listed in a "
    "synthetic bank registry.",
    "Trusts mc/ref/nat.py (written from the published rules, compared with the library on every case).",
    "DESIGN.md section 4 C06")
add("C07", EXPL, TECH_INPUT,
    "Every implemented Bundesbank method on all account numbers within 2 (thorough 3) digit changes of "
    "landmark bases, and every German bank code of the registry through the public IBAN API with "
    "reference-accepted and -rejected accounts; unlisted neighbours and unimplemented methods must accept; "
    "the same after IBANs of other countries carrying the same key were looked up; five spellings of the "
    "request must agree.",
    "Trusts mc/ref/bbk.py; the reference abstains where the published text has a second variant the "
    "property does not demand (13/63/76).",
    "DESIGN.md section 4 C07")
add("C08", EXPL, TECH_INPUT,
    "Full product of a 12-string menu per component over the three generate() arguments for every "
    "country, plus from_components for the other component kinds, compared with a reference assembly "
    "(positions, padding, split, over-length class); value relationships between the arguments, placeholder "
    "words and BIC-shaped codes as values, characters special to str.format / % / re in over-long values, "
    "python -O and python -W error interpreters, generation after a run-time update of the country table.",
    "Trusts mc/ref/gen.py; the ambiguous 'combined bank code + branch code' input is excluded.",
    "DESIGN.md section 4 C08")

add("C09", EXPL, TECH_INPUT,
    "For the 19 computing countries every body of the C06 family and every case of the C08 menu product "
    "is generated and must pass national validation and the published rule; seeded random draws "
    "likewise; every nationally valid IBAN of every country with positions is decomposed through the "
    "eight accessors and rebuilt, compared at every covered position; every subset of pins in random(); "
    "a country's algorithm replaced through checksum.register.",
    "Trusts mc/ref/nat.py for 'nationally valid'; reserved filler positions (TR[5], MU[20:23]) exempt.",
    "DESIGN.md section 4 C09")
add("C10", EXPL, TECH_INPUT,
    "Per country valid and invalid texts, BIC bases: every gap x 5 white-space kinds (single, double, "
    "pairs of gaps), all case patterns (all 2^n for <= 11 letters); same verdict, equal objects, "
    "canonical compact form, reference formatting, parse(formatted) == parse(compact) == object; BICs also "
    "in strict mode; components handed to generate / from_components in five spacing / case styles, blank-"
    "only components.",
    "White-space kinds and ASCII case as named by the property; other Unicode belongs to C01.",
    "DESIGN.md section 4 C10")
add("C11", EXPL, TECH_INPUT,
    "Every accepted IBAN among all bases x all fillers x conforming substitutions and the length/prefix "
    "families, every accepted BIC of the C04 families: concatenation, eight accessors vs. the published "
    "positions, disjointness, IBAN- vs BBAN-level accessors, from_bban reassembly; objects re-read and "
    "re-validated after their BBAN was handed to constructors of other countries; decomposition after a "
    "run-time update of the country table (objects, deep copies, pickles created before).",
    "Published positions = the tree's merged table read by mc/ref/reg.py.",
    "DESIGN.md section 4 C11")
add("C12", EXPL, TECH_INPUT + "; configurations: all bank lists of <= 3 entries over a 36-entry alphabet "
    "installed through the library's own index-building statements",
    "Exhaustive over the bundled registry (every key, every BIC, unlisted neighbours, an IBAN around "
    "every key) and over all synthetic registries of <= 3 entries: candidates, selection predicate, "
    "InvalidBankCode, inversion, iban.bank/bic/names; registries for keys of several components (PL, SI); "
    "a malformed registry BIC; unvalidated objects of wrong length; a run-time refresh of the bank list.",
    "Trusts mc/ref/lookup.py; synthetic registries replace registry state in-process and are restored "
    "(restoration verified).",
    "DESIGN.md section 4 C12")
add("C13", EXPL,
    "deviation-bounded choice-tree exploration (E1): the random generator is a seam whose every answer is "
    "a choice point; all answer sequences with <= 1 (thorough 2) non-default answers are executed; plus "
    "real seeds across processes and hash seeds",
    "Every country x registry mode x pin configuration: every bank, every character at every generated "
    "position, every country choice (<= 1 deviation) must give a valid IBAN honouring the pins or the "
    "documented overflow error; equal seeds give equal results in-process, across fresh processes and "
    "under 5 PYTHONHASHSEED values. Pin configurations: none, each single, every subset of bank / branch / "
    "account, all; consecutive and impossible account numbers; wrong-class and over-wide pins.",
    "Scripted answer sequences need not be Mersenne-Twister producible (random= accepts any generator); "
    "deviations are placed within the first 80 choice points.",
    "DESIGN.md section 4 C13")
add("C14", "model_checking",
    "stateless model checking of the implementation: real threads under a sys.settrace baton scheduler, "
    "ALL schedules with <= p preemptions (iterative context bounding) at source-line and bytecode "
    "granularity, per-thread results compared with solo runs; real locks become forced switches, a hang "
    "is a violation; cold-start and state-carrying harnesses run every execution in its own fork",
    "About 400 (quick) harnesses of 2-3 threads over every Bundesbank method object (operands chosen by "
    "remainder class and rule branch so that their scratch values differ), the IBAN-level path, lookups on "
    "the same registry entry, generation, seeded random draws, raising national checks, assembly next to "
    "a mistyped text, one object shared by two threads, a valid next to an invalid IBAN of every national "
    "country, cross-method pairs, two accepted accounts of different rule branches at bytecode granularity "
    "(with a partial-order reduction over thread-local instructions), ten cold-start pairs and one cold-"
    "start pair per method followed by canary calls of every method: every schedule within the preemption "
    "bound is executed on the real code; results include exception messages; replay determinism is "
    "asserted per harness; a harness during which the library state drifts away from its start state is "
    "explored again with one fork of the start state per execution and a read-back after each.",
    "Switch points are line/opcode events inside schwifty/; foreign code is atomic (a blocked thread is "
    "detected through its kernel state); no free-threaded build, no multiprocessing; bounds per harness "
    "group are in the evidence.",
    "DESIGN.md section 4 C14, 0a, 0c, 0e")
add("C15", "model_checking",
    "explicit-state model checking of the implementation: breadth-first search to closure over the "
    "library's global state (canonical fingerprint incl. a probe of pycountry's database; states "
    "re-created by forking the pristine process and replaying the shortest history), one search per group "
    "of operations sharing an algorithm object, invariants on every transition; plus merge-free enumeration "
    "of operation sequences; reference outcomes from fresh interpreters under another hash seed",
    "Every (reachable state, operation) transition over ~270 operations in ~40 groups is executed: outcome "
    "equals the fresh-interpreter outcome, registry payload equals its post-import deep copy, earlier "
    "objects unchanged (type-strict, with an identity fast path); operations that check an invariant of "
    "their own (an object handed to further calls comes back unchanged); warnings escalated / recorded; "
    "short sequences are additionally executed without state merging.",
    "The fingerprint covers module globals, class attributes, instance dicts and properties of schwifty "
    "objects, pycountry's country list and interpreter-wide settings (int/str limit, recursion limit, "
    "warnings filters, locale, decimal context); operations outside the alphabet are not covered.",
    "DESIGN.md section 4 C15, 0a, 0c, 0d")
add("C16", EXPL, TECH_INPUT,
    "All ordered pairs of ~110 IBAN/BIC/BBAN objects (valid and allow_invalid) and plain strings under "
    "six operators, hashing, dict and set lookup; sorted() of all 3-subsets of a pool in all orders; "
    "copy, deepcopy and all pickle protocols of every object - fresh, and after every public property was "
    "read and the validations were run; escaped / normalised re-spellings of non-ASCII texts; numeric BBANs "
    "of different lengths; pickles across processes with different hash seeds.",
    "Reference = Python str semantics on the compact strings.",
    "DESIGN.md section 4 C16")
add("C17", EXPL,
    "exhaustive enumeration of every entry of the bundled data (configurations) against structural "
    "obligations, plus the real library on an IBAN built around every bank entry",
    "Every country entry, every registered algorithm and every bank entry of the tree's data is checked "
    "against every obligation of the statement; nothing is sampled and no counts are hard-coded.",
    "Structure string = bban_spec; iban_spec / country echo only reported.",
    "DESIGN.md section 4 C17")
add("C18", EXPL, TECH_INPUT + "; configurations: all sets of <= 3 registry files x all file-name orders x "
    "all directory-listing permutations through the real loader in a sandbox",
    "merge_dicts on all pairs of nested documents up to 3 (thorough 4) nodes and all triples of small "
    "ones; the real loader on every file set / name order / listing order, the bank loader with every "
    "small v2 document in every position; the merge pairs once more with the key names the files use; API "
    "behaviour on the effective data; 15 end-to-end configurations in a scratch package copy imported by a "
    "fresh interpreter (lookup components, duplicate codes across files); run-time replacement of the table "
    "through registry.save.",
    "Trusts mc/ref/reg.py's merge/expansion; the harness owns the directory listing order through a Path "
    "subclass.",
    "DESIGN.md section 4 C18")

NOT_APPLICABLE = {
}


def main():
    props = [json.loads(l)["id"] for l in (VERIF / "properties.jsonl").read_text().splitlines() if l.strip()]
    checks = []
    for pid in props:
        if pid not in CHECKS:
            continue
        cat, tech, text, note, ref = CHECKS[pid]
        checks.append({
            "property_id": pid,
            "quick_cmd": f"./check {pid} quick",
            "thorough_cmd": f"./check {pid} thorough",
            "evidence_file": f"/verif/evidence/{pid}.json",
            "replay_cmd_template": "./check replay {path}",
            "engine": "mc",
            "level_claimed": {"category": cat, "text": text, "design_ref": ref},
            "level_note": note,
            "technique": tech,
        })
    na = [{"property_id": p, "reason": NOT_APPLICABLE.get(p, "check not built yet (work in progress); see DESIGN.md")}
          for p in props if p not in CHECKS]
    manifest = {
        "version": 1,
        "setup_cmd": "./setup.sh",
        "hooks": {
            "guard": "SCHWIFTY_VERIF",
            "enable": "no source hooks are needed: every seam used (random=, sys.settrace, module globals, "
                      "registry.save/build_index, importlib.resources.files) already exists; checks set "
                      "SCHWIFTY_VERIF=1 for uniformity",
            "baseline_off_cmd": "cd /repo && /venv/bin/python -m pytest -q -p no:cacheprovider --timeout=900",
            "source_commits": [],
            "add_only": True,
        },
        "engines": [
            {"name": "mc", "path": "/verif/mc", "serves_properties": sorted(CHECKS),
             "kind_free_text": "hand-written bounded exhaustive explorers over the real Python code: "
                               "E1 deviation-bounded choice-tree / input enumeration, E2 sys.settrace baton "
                               "scheduler for threads, E3 explicit-state BFS over library global state, "
                               "E4 registry sandbox; reference models in mc/ref"},
        ],
        "checks": checks,
        "not_applicable": na,
        "notes": "Run ./check <ID> quick|thorough from /verif. Interpreter /venv/bin/python; schwifty is "
                 "imported from VERIF_REPO (default /repo) working tree. known_findings.json lists open "
                 "findings and 'fixed:' records.",
    }
    (VERIF / "MANIFEST.json").write_text(json.dumps(manifest, indent=1) + "\n")
    print(f"{len(checks)} checks, {len(na)} not_applicable")


if __name__ == "__main__":
    main()
