#!/usr/bin/env python3
"""Regenerates /verif/MANIFEST.json from the table below (kept in one place so that the
manifest stays valid and in step with the checks that exist)."""
import json
from pathlib import Path

VERIF = Path(__file__).resolve().parents[1]

# id -> (category, technique, level text, level note, design ref)
CHECKS = {}


def add(pid, category, technique, text, note, ref):
    CHECKS[pid] = (category, technique, text, note, ref)


EXPL = "exploration"
add("C01", EXPL,
    "bounded exhaustive enumeration of input deviations (every position x wide alphabet, every "
    "length, every prefix, every check pair) executed on the real code, judged by a reference model",
    "Every text within one edit (thorough: two substitutions over a 12-character cross-section) of "
    "structure-conforming base IBANs of all countries of the tree's table is executed through "
    "IBAN() and compared with an independent ISO 13616 reference; a coverage statement over that "
    "deviation space, not a proof for all strings.",
    "Trusts the reference model mc/ref/iban.py + mc/ref/reg.py (reads the tree's registry JSON "
    "itself). Texts further than the bound from every base are not explored.",
    "DESIGN.md section 4 C01")

NOT_APPLICABLE = {
}


def main():
    props = [json.loads(l)["id"] for l in (VERIF / "properties.jsonl").read_text().splitlines() if l.strip()]
    checks = []
    for pid in props:
        if pid not in CHECKS:
            continue
        cat, tech, text, note, ref = CHECKS[pid]
        checks.append({
            "property_id": pid,
            "quick_cmd": f"./check {pid} quick",
            "thorough_cmd": f"./check {pid} thorough",
            "evidence_file": f"/verif/evidence/{pid}.json",
            "replay_cmd_template": "./check replay {path}",
            "engine": "mc",
            "level_claimed": {"category": cat, "text": text, "design_ref": ref},
            "level_note": note,
            "technique": tech,
        })
    na = [{"property_id": p, "reason": NOT_APPLICABLE.get(p, "check not built yet (work in progress); see DESIGN.md")}
          for p in props if p not in CHECKS]
    manifest = {
        "version": 1,
        "setup_cmd": "./setup.sh",
        "hooks": {
            "guard": "SCHWIFTY_VERIF",
            "enable": "no source hooks are needed: every seam used (random=, sys.settrace, module globals, "
                      "registry.save/build_index, importlib.resources.files) already exists; checks set "
                      "SCHWIFTY_VERIF=1 for uniformity",
            "baseline_off_cmd": "cd /repo && /venv/bin/python -m pytest -q -p no:cacheprovider --timeout=900",
            "source_commits": [],
            "add_only": True,
        },
        "engines": [
            {"name": "mc", "path": "/verif/mc", "serves_properties": sorted(CHECKS),
             "kind_free_text": "hand-written bounded exhaustive explorers over the real Python code: "
                               "E1 deviation-bounded choice-tree / input enumeration, E2 sys.settrace baton "
                               "scheduler for threads, E3 explicit-state BFS over library global state, "
                               "E4 registry sandbox; reference models in mc/ref"},
        ],
        "checks": checks,
        "not_applicable": na,
        "notes": "Run ./check <ID> quick|thorough from /verif. Interpreter /venv/bin/python; schwifty is "
                 "imported from VERIF_REPO (default /repo) working tree. known_findings.json lists open "
                 "findings and 'fixed:' records.",
    }
    (VERIF / "MANIFEST.json").write_text(json.dumps(manifest, indent=1) + "\n")
    print(f"{len(checks)} checks, {len(na)} not_applicable")


if __name__ == "__main__":
    main()
