#!/usr/bin/env python3
"""keep_seeded.py <log of tools/try_seeded.sh runs> <wave>  - copies confirmed seeded changes from
/tmp/wt/cNN/MUTANT_k into /verif/seeded/<id>/ with a meta.json describing what was run."""
import json, re, shutil, sys
from pathlib import Path

ROOT = sys.argv[4] if len(sys.argv) > 4 else "/tmp/wt"
log, wave = Path(sys.argv[1]).read_text().split("=== ")[1:], sys.argv[2]
missed_first = set(sys.argv[3].split(",")) if len(sys.argv) > 3 else set()
for block in log:
    name = block.splitlines()[0].strip()             # c01/A
    prop, k = name.split("/")
    src = Path(f"{ROOT}/{prop}/MUTANT_{k}")
    sid = f"{prop.upper()}-w{wave}{k}"
    dst = Path("/verif/seeded") / sid
    dst.mkdir(parents=True, exist_ok=True)
    for f in ("patch.diff", "demo.py", "notes.md"):
        shutil.copy(src / f, dst / f)
    tests = re.search(r"tests with change: (.*)", block).group(1)
    demo_clean = re.search(r"demo on clean tree: exit (\d+)", block).group(1)
    demo_mut = re.search(r"demo with change: exit (\d+)", block).group(1)
    checks = re.findall(r"check (C\d+) (\w+): exit (\d+)\s+(\d+) violation signatures", block)
    sigs = re.findall(r"signature: (.*?)  cases: (\d+)", block)
    notes = (src / "notes.md").read_text()
    meta = {
        "id": sid, "property": prop.upper(), "origin": "independent sub-agent given only the property text "
        "and a scratch worktree (wave %s)" % wave,
        "needs_to_manifest": next((ln.strip() for ln in notes.splitlines() if re.search(
            r"needs|trigger|manifest|sequence|requires", ln, re.I)), notes.strip().splitlines()[0])[:400],
        "confirmed": {"existing_tests_with_change": tests, "demo_exit_clean_tree": int(demo_clean),
                      "demo_exit_with_change": int(demo_mut),
                      "how": "tools/try_seeded.sh: fresh scratch worktree of /repo HEAD, git apply patch.diff, "
                             "pytest, demo.py; checks run with VERIF_REPO=<worktree>"},
        "checks_run": [{"check": c, "tier": t, "exit": int(e), "violation_signatures": int(n)} for c, t, e, n in checks],
        "signatures_reported": [s for s, _ in sigs][:6],
        "detected_by_own_property_check": any(c == prop.upper() and e == "1" for c, _, e, _ in checks),
        "detected_by": [c for c, _, e, _ in checks if e == "1"],
        "missed_before_strengthening": name in missed_first,
    }
    (dst / "meta.json").write_text(json.dumps(meta, indent=1) + "\n")
    print(sid, meta["detected_by_own_property_check"], meta["missed_before_strengthening"])
