#!/bin/sh
# tools/run_benign.sh [ids...]  - applies every kept BENIGN (property-preserving) change in a scratch
# worktree and runs ALL quick checks against it; every check must stay silent (exit 0).
cd "$(dirname "$0")/.." || exit 2
ids="$*"; [ -z "$ids" ] && ids=$(ls benign)
fail=0
for id in $ids; do
  out=$(tools/try_seeded.sh benign/$id C01 C02 C03 C04 C05 C06 C07 C08 C09 C10 C11 C12 C13 C14 C15 C16 C17 C18 2>&1)
  t=$(echo "$out" | grep -c "362 passed")
  bad=$(echo "$out" | grep "^check" | grep -v "exit 0" | awk '{print $2}' | tr '\n' ' ')
  if [ "$t" = 1 ] && [ -z "$bad" ]; then echo "SILENT $id (18 checks)"; else echo "ALARM $id tests_ok=$t checks: $bad"; fail=1; fi
done
exit $fail
