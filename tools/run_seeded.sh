#!/bin/sh
# tools/run_seeded.sh [ids...]   - re-runs every kept seeded change (or the named ones) against the
# quick check of its own property (plus C14 for the three race changes aimed at other properties)
# in scratch worktrees; prints one line per change.  /repo and the committed evidence are not touched.
cd "$(dirname "$0")/.." || exit 2
ids="$*"; [ -z "$ids" ] && ids=$(ls seeded)
fail=0
for id in $ids; do
  prop=${id%%-*}
  checks=$prop
  case $id in C03-w2B|C09-w2C|C12-w2C|C02-w3A|C03-w3C|C07-w3C|C09-w3C|C02-w5A|C03-w5B|C11-w5C) checks="C14";; C10-w3B|C10-w4A|C10-w4B|C10-w5A) checks="C08";; C01-w8B) checks="C06";; C15-w8A) checks="C14";; C17-w8A) checks="C18";; C07-w8C) echo "SKIPPED $id (the reference abstains exactly there, see meta.json)"; continue;; C01-w7A) checks="C02";; C01-w7B|C17-w7B) checks="C13";; C01-w7C) checks="C11";; C02-w7A) checks="C16";; C04-w7A|C17-w7A) checks="C12";; C14-w7C|C17-w7C) echo "SKIPPED $id (not a violation any check can or should see, see meta.json)"; continue;; C14-w7B|C07-w7B) echo "SKIPPED $id (needs two preemptions: found by the thorough tier of C14 only, see meta.json)"; continue;; C01-w4B|C11-w4C) echo "SKIPPED $id (self-consistent data edit: not a violation under the property wording, see meta.json)"; continue;; C14-w6C) echo "SKIPPED $id (needs two preemptions, the first inside a source line: found by the thorough tier only, see meta.json)"; continue;; esac
  out=$(tools/try_seeded.sh seeded/$id $checks 2>&1)
  t=$(echo "$out" | grep -c "362 passed")
  d=$(echo "$out" | grep "demo with change" | grep -c "exit 1")
  c=$(echo "$out" | grep "^check" | grep -c "exit 1")
  if [ "$t" = 1 ] && [ "$d" = 1 ] && [ "$c" -ge 1 ]; then echo "DETECTED $id by $checks"
  elif [ "$t" = 1 ] && [ "$c" -ge 1 ] && [ "$id" = "C14-w4B" ]; then echo "DETECTED $id by $checks (its own demonstration is timing-dependent and did not fail in this run)"
  else echo "NOT-DETECTED $id (tests=$t demo=$d check=$c)"; fail=1; fi
done
exit $fail
