#!/usr/bin/env python3
"""Prints the markdown table of kept seeded changes (for DESIGN.md section 8)."""
import json, re
from pathlib import Path
rows = []
for d in sorted(Path("/verif/seeded").iterdir()):
    m = json.loads((d / "meta.json").read_text())
    notes = (d / "notes.md").read_text()
    first = next((ln.strip(" -*#") for ln in notes.splitlines() if len(ln.strip()) > 30), "")
    what = m.get("summary") or first
    what = re.sub(r"\s+", " ", what)[:230]
    det = ", ".join(f"{c['check']} {c['tier']}" for c in m["checks_run"] if c["exit"] == 1) or (
        "not detected (by design, see meta.json)" if m.get("not_detected_by_design") else "-")
    if m.get("detected_by_thorough_tier_only"):
        det = "C14 thorough only (see meta.json)"
    miss = ", ".join(f"{c['check']} {c['tier']}" for c in m["checks_run"] if c["exit"] == 0)
    flag = "yes (check strengthened)" if m.get("missed_before_strengthening") else "no"
    if m.get("not_detected_by_design"):
        flag = "yes (and still: out of the properties' / the family's reach)"
    rows.append(f"| `{m['id']}` | {what} | {det} | {flag} |")
print("| id | change (from its notes.md) | detected by | missed at first? |")
print("|---|---|---|---|")
print("\n".join(rows))
