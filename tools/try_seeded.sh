#!/bin/sh
# tools/try_seeded.sh <dir with patch.diff [demo.py]> <check ids...>
# Confirms a seeded change in a scratch worktree (tests still pass, demo fails with / passes without)
# and runs the named checks against that worktree (VERIF_REPO), leaving /repo and the committed
# evidence untouched.  Prints one line per step.
set -u
D=$(cd "$1" && pwd); shift
WT=$(mktemp -d /tmp/seeded_wt.XXXXXX); OUT=$(mktemp -d /tmp/seeded_out.XXXXXX)
rmdir "$WT"
git -C /repo worktree add -q --detach "$WT" HEAD || exit 2
cleanup() { git -C /repo worktree remove --force "$WT" 2>/dev/null; rm -rf "$OUT"; }
trap cleanup EXIT
cd "$WT" || exit 2
if [ -f "$D/demo.py" ]; then
  mkdir -p M && cp "$D/demo.py" M/demo.py
  /venv/bin/python M/demo.py >/dev/null 2>&1; echo "demo on clean tree: exit $?"
fi
git apply "$D/patch.diff" || { echo "PATCH DOES NOT APPLY"; exit 2; }
echo "tests with change: $(/venv/bin/python -m pytest -q -p no:cacheprovider 2>&1 | tail -1)"
if [ -f "$D/demo.py" ]; then
  /venv/bin/python M/demo.py >/dev/null 2>&1; echo "demo with change: exit $?"
fi
cd /verif
for id in "$@"; do
  tier=quick
  case "$id" in *:thorough) tier=thorough; id=${id%:thorough};; esac
  VERIF_REPO="$WT" VERIF_OUT="$OUT" ./check "$id" "$tier" > "$OUT/$id.log" 2>&1
  rc=$?
  echo "check $id $tier: exit $rc  $(grep -c '^VIOLATION' "$OUT/$id.log") violation signatures; $(tail -1 "$OUT/$id.log")"
  grep -E "signature:|HARNESS" "$OUT/$id.log" | head -5
done
